/-
  C06 — self-identifying content is believed exactly when it checks out.
-/
import CharsetProof.Lemmas.Restrict
import CharsetProof.Lemmas.SortPerm
import CharsetProof.Props.C09
import CharsetProof.Props.C07
import CharsetProof.Model.Concrete
set_option linter.unusedSectionVars false
namespace Charset
variable {E L : Type} [DecidableEq E]

/-! ### (a) the probe order starts with the hints, in priority order -/

theorem mem_probeOrder_iff {supported prio : List E} {x : E} : x ∈ probeOrder supported prio ↔ x ∈ supported :=
  ⟨mem_probeOrder, mem_probeOrder_of_mem⟩

/-- **C06 (a)** — recursive characterisation of the probe order: the first hint, if it is a supported
    encoding, is probed first; the remaining order is the order for the remaining hints with that
    encoding removed. Hence: declared, then BOM/signature, then ascii, then utf-8 (each at its first
    occurrence), then every other supported encoding in table order. -/
theorem C06_probeOrder_cons (supported : List E) (p : E) (ps : List E) :
    probeOrder supported (p :: ps) =
      if p ∈ supported then p :: (probeOrder supported ps).erase p else probeOrder supported ps := by
  show rotateFront p (probeOrder supported ps) = _
  unfold rotateFront
  by_cases hp : p ∈ supported
  · have : (probeOrder supported ps).contains p = true := by simpa using mem_probeOrder_iff.mpr hp
    rw [if_pos this, if_pos hp]
  · have : ¬ ((probeOrder supported ps).contains p = true) := by
      intro hc; exact hp (mem_probeOrder_iff.mp (by simpa using hc))
    rw [if_neg this, if_neg hp]

theorem C06_order_head {T : Tables E} (b : Bytes) (pre : Bool) (h : E) (rest : List E)
    (hp : prioritized T b pre = h :: rest) (hs : h ∈ T.supported) :
    (probeOrder T.supported (prioritized T b pre)).head? = some h := by
  rw [hp, C06_probeOrder_cons, if_pos hs]; rfl

/-! ### (b), (c) early exit happens exactly at the first qualifying hint -/

/-- the verdict of `e` probed alone is "accepted" and satisfies the exit test: chaos below 10 % for a
    hint, merely accepted for the encoding indicated by the BOM/signature -/
def Qualifies (W : World E L) (T : Tables E) (c : Ctx E) (e : E) : Prop :=
  ∃ m, probe W T c [] e = .ok (.accepted m) ∧ exitCond c e m.chaos = true

theorem exitCond_hint {c : Ctx E} {e : E} {x : F32} (h : exitCond c e x = true) :
    c.prio.contains e = true ∨ (c.sig.map (·.1)) = some e := by
  unfold exitCond at h
  simp only [Bool.or_eq_true, Bool.and_eq_true, beq_iff_eq] at h
  rcases h with h | h
  · exact Or.inl h.2
  · exact Or.inr h

theorem probePrepare_nil {W : World E L} {T : Tables E} {c : Ctx E} {soft : List E} {e : E} {st1 : Stage1 E}
    (h : probePrepare W T c soft e = .ok st1) (hns : ∀ f, st1 ≠ .similarSkip f) :
    probePrepare W T c [] e = .ok st1 := by
  unfold probePrepare at h ⊢
  split at h
  · rename_i hb; rw [if_pos hb]; exact h
  · rename_i hb
    rw [if_neg hb]
    cases hsl : sliceF 341 c.b (startIdxOf c e) (endIdxOf T c e) with
    | error s => simp [hsl] at h
    | ok sl =>
      simp only [hsl] at h ⊢
      cases hd : W.decode e sl with
      | error s => simp [hd] at h
      | ok r =>
        cases r with
        | none => simp only [hd] at h ⊢; exact h
        | some t0 =>
          simp only [hd] at h ⊢
          simp only [List.find?_nil]
          split at h
          · cases h; exact absurd rfl (hns _)
          · exact h

theorem probe_nil_of_not_skip {W : World E L} {T : Tables E} {c : Ctx E} {soft : List E} {e : E} {v : Verdict E L}
    (h : probe W T c soft e = .ok v) (hns : ∀ f, v ≠ .similarSkip f) : probe W T c [] e = .ok v := by
  unfold probe at h ⊢
  cases hp : probePrepare W T c soft e with
  | error s => simp [hp] at h
  | ok st1 =>
    have hst : ∀ f, st1 ≠ .similarSkip f := by
      intro f hf
      subst hf
      simp only [hp] at h
      cases h
      exact hns f rfl
    rw [probePrepare_nil hp hst]
    simp only [hp] at h
    exact h

theorem probe_similarSkip {W : World E L} {T : Tables E} {c : Ctx E} {soft : List E} {e f : E}
    (h : probe W T c soft e = .ok (.similarSkip f)) : T.similar e f = true ∧ f ∈ soft := by
  unfold probe at h
  cases hp : probePrepare W T c soft e with
  | error s => simp [hp] at h
  | ok st1 =>
    cases st1 with
    | needsBom => simp [hp] at h
    | hardFail => simp [hp] at h
    | similarSkip f' =>
      simp only [hp, Except.ok.injEq, Verdict.similarSkip.injEq] at h
      subst h
      unfold probePrepare at hp
      split at hp
      · cases hp
      · split at hp
        · cases hp
        · split at hp
          · cases hp
          · cases hp
          · split at hp
            · rename_i hfind
              cases hp
              exact ⟨by simpa using List.find?_some hfind, List.mem_of_find?_eq_some hfind⟩
            · cases hp
    | go p =>
      simp only [hp] at h
      split at h
      · cases h
      · split at h
        · cases h
        · cases h
        · split at h
          · rcases probeSoft_spec h with hv | ⟨_, hv, _⟩ <;> cases hv
          · obtain ⟨_, _, _, hv, _⟩ := probeAccept_spec h; cases hv

/-- outcome of the loop in terms of *who qualifies when probed alone* -/
inductive LoopVerdict (W : World E L) (T : Tables E) (c : Ctx E) (incl excl : List E) (order : List E) :
    Outcome E L → Prop
  | exit (pre : List E) (h : E) (post : List E) (x : Match E L) :
      order = pre ++ h :: post → allowed incl excl h = true → Qualifies W T c h →
      (∀ e ∈ pre, allowed incl excl e = true → ¬ Qualifies W T c e) → h ∈ x.cands →
      LoopVerdict W T c incl excl order (.exit x)
  | done (st : LoopState E L) :
      (∀ e ∈ order, allowed incl excl e = true → ¬ Qualifies W T c e) →
      LoopVerdict W T c incl excl order (.done st)

/-- hints are never subject to the similarity skip: table hypothesis (kernel-checked for the dumped
    tables) for ascii, utf-8 and the marked encodings; the declared encoding is probed first, when no
    encoding has soft-failed yet -/
def HintsNotSimilarKeys (T : Tables E) : Prop :=
  ∀ e, (e = T.ascii ∨ e = T.utf8 ∨ e ∈ T.marks.map (·.1)) → ∀ f, T.similar e f = false

theorem softUpdate_soft {T : Tables E} {c : Ctx E} {st : LoopState E L} {e : E} {fb : Option (Match E L)} :
    (softUpdate T c st e fb).soft = st.soft ++ [e] := by
  unfold softUpdate
  split
  · rfl
  · split
    · rfl
    · split <;> rfl

theorem C06_loop {W : World E L} {T : Tables E} {sort : Sorter E L} (hperm : ∀ l, (sort l).Perm l)
    (hT : HintsNotSimilarKeys T) (hnd : T.supported.Nodup) {b : Bytes} {s : Settings} {incl excl : List E}
    {out : Outcome E L}
    (h : detectLoop W T sort (ctxOf T b s) incl excl (probeOrder T.supported (prioritized T b s.preemptive)) {} = .ok out) :
    LoopVerdict W T (ctxOf T b s) incl excl (probeOrder T.supported (prioritized T b s.preemptive)) out := by
  let c := ctxOf T b s
  let order := probeOrder T.supported (prioritized T b s.preemptive)
  -- invariant: nobody processed so far qualifies; soft failures so far are all among the processed ones
  let Inv : List E → LoopState E L → Prop := fun done st =>
    (∀ e ∈ done, allowed incl excl e = true → ¬ Qualifies W T c e) ∧ (∀ f ∈ st.soft, f ∈ done)
  -- the declared encoding, if any, is the head of the order; everything else in prio is a non-key hint
  have hprio : ∀ e, c.prio.contains e = true ∨ (c.sig.map (·.1)) = some e →
      (T.declared b = some e ∧ s.preemptive = true) ∨ (∀ f, T.similar e f = false) := by
    intro e he
    have hmem : e ∈ prioritized T b s.preemptive := by
      rcases he with he | he
      · simpa [c, ctxOf] using he
      · simp only [c, ctxOf] at he
        simp only [prioritized, List.mem_append, Option.mem_toList, List.mem_cons]
        left; right
        cases hs : sigOf T.marks b with
        | none => simp [hs] at he
        | some p => simp only [hs, Option.map_some, Option.some.injEq] at he ⊢; exact he
    simp only [prioritized, List.mem_append, Option.mem_toList, List.mem_cons, List.mem_singleton, List.not_mem_nil,
      or_false] at hmem
    rcases hmem with (hd | hsig) | ha | hu
    · by_cases hpre : s.preemptive = true
      · simp only [hpre, ↓reduceIte, Option.mem_toList] at hd
        exact Or.inl ⟨hd, hpre⟩
      · simp [hpre] at hd
    · right
      apply hT e
      right; right
      cases hs : sigOf T.marks b with
      | none => simp [hs] at hsig
      | some p =>
        simp only [hs, Option.map_some, Option.mem_def, Option.some.injEq] at hsig
        have := (sigOf_some (e := p.1) (mk := p.2) (by rw [hs])).1
        simp only [List.mem_map]; exact ⟨p, this, hsig⟩
    · exact Or.inr (hT e (Or.inl ha))
    · exact Or.inr (hT e (Or.inr (Or.inl hu)))
  have hordnd : order.Nodup := nodup_probeOrder hnd
  -- a declared encoding is probed first
  have hdeclFirst : ∀ e done rest, T.declared b = some e → s.preemptive = true → done ++ e :: rest = order → done = [] := by
    intro e done rest hd hpre hall
    have hin : e ∈ T.supported := mem_probeOrder (by rw [show probeOrder T.supported (prioritized T b s.preemptive) = order from rfl, ← hall]; simp)
    have hp : prioritized T b s.preemptive = e :: (((sigOf T.marks b).map (·.1)).toList ++ [T.ascii, T.utf8]) := by
      simp [prioritized, hpre, hd]
    have hhead : order.head? = some e := C06_order_head b s.preemptive e _ hp hin
    cases done with
    | nil => rfl
    | cons d ds =>
      exfalso
      rw [← hall] at hhead hordnd
      simp only [List.cons_append, List.head?_cons, Option.some.injEq] at hhead
      subst hhead
      have := (List.nodup_cons.mp hordnd).1
      exact this (by simp)
  refine detectLoop_rule_full (W := W) (T := T) (sort := sort) (c := c) (incl := incl) (excl := excl) order Inv
    (LoopVerdict W T c incl excl order) ?_ ?_ ?_ ?_ order [] {} out (by simp) ⟨by simp, by simp⟩ h
  · -- skipped encodings do not qualify
    intro done st e rest hall hinv hcase
    refine ⟨?_, fun f hf => by simp [hinv.2 f hf]⟩
    intro x hx hal
    simp only [List.mem_append, List.mem_singleton] at hx
    rcases hx with hx | rfl
    · exact hinv.1 x hx hal
    · rintro ⟨m, hm, hex⟩
      rcases hcase with h0 | h1 | h1 | ⟨f, h1⟩
      · rw [hal] at h0; cases h0
      · have := probe_nil_of_not_skip h1 (by intro f hf; cases hf); rw [this] at hm; cases hm
      · have := probe_nil_of_not_skip h1 (by intro f hf; cases hf); rw [this] at hm; cases hm
      · obtain ⟨hsim, hfs⟩ := probe_similarSkip h1
        rcases hprio x (exitCond_hint hex) with ⟨hd, hpre⟩ | hns
        · have := hdeclFirst x done rest hd hpre hall
          subst this
          have := hinv.2 f hfs
          simp at this
        · rw [hns f] at hsim; cases hsim
  · intro done st e rest fb hall hinv hal hp
    refine ⟨?_, ?_⟩
    · intro x hx halx
      simp only [List.mem_append, List.mem_singleton] at hx
      rcases hx with hx | rfl
      · exact hinv.1 x hx halx
      · rintro ⟨m, hm, _⟩
        have := probe_nil_of_not_skip hp (by intro f hf; cases hf); rw [this] at hm; cases hm
    · intro f hf
      rw [softUpdate_soft] at hf
      simp only [List.mem_append, List.mem_singleton] at hf ⊢
      rcases hf with hf | hf
      · exact Or.inl (hinv.2 f hf)
      · exact Or.inr hf
  · intro done st e rest m hall hinv hal hp
    have hnil := probe_nil_of_not_skip hp (by intro f hf; cases hf)
    refine ⟨?_, ?_⟩
    · intro hex
      refine ⟨?_, fun f hf => by simp [hinv.2 f hf]⟩
      intro x hx halx
      simp only [List.mem_append, List.mem_singleton] at hx
      rcases hx with hx | rfl
      · exact hinv.1 x hx halx
      · rintro ⟨m', hm', hex'⟩
        rw [hnil] at hm'
        simp only [Except.ok.injEq, Verdict.accepted.injEq] at hm'
        subst hm'
        rw [hex] at hex'; cases hex'
    · intro hex x hx
      exact LoopVerdict.exit done e rest x hall.symm hal ⟨m, hnil, hex⟩ hinv.1 (by simpa using (findByCand_mem hx).2)
  · intro st hinv
    exact LoopVerdict.done st hinv.1

/-- **C06 (b)+(c)** lifted to `from_bytes` — on non-empty input with valid filters the result is either
    the single match of the FIRST encoding in probe order (hints come first, in priority order) that
    passes the filters and qualifies when probed alone (chaos < 10 % for a hint, merely accepted for
    the BOM-indicated encoding), or – when no encoding qualifies – the complete, un-shortened result. -/
theorem C06_from_bytes {W : World E L} {T : Tables E} {sort : Sorter E L} (hperm : ∀ l, (sort l).Perm l)
    (hT : HintsNotSimilarKeys T) (hnd : T.supported.Nodup) {b : Bytes} {s : Settings} {incl excl : List E}
    (hincl : canonList T.ianaName s.incl = .ok incl) (hexcl : canonList T.ianaName s.excl = .ok excl)
    {ms : List (Match E L)} (hb : b ≠ []) (h : fromBytes W T sort b s = .ok (.ok ms)) :
    let order := probeOrder T.supported (prioritized T b s.preemptive)
    let c := ctxOf T b s
    (∃ pre hint post x, order = pre ++ hint :: post ∧ allowed incl excl hint = true ∧ Qualifies W T c hint ∧
        (∀ e ∈ pre, allowed incl excl e = true → ¬ Qualifies W T c e) ∧ hint ∈ x.cands ∧ ms = [x]) ∨
    ((∀ e ∈ order, allowed incl excl e = true → ¬ Qualifies W T c e) ∧
      ∃ st, detectLoop W T sort c incl excl order {} = .ok (.done st) ∧ ms = finish sort T.tooBig st) := by
  unfold fromBytes at h
  simp only [hincl, hexcl] at h
  split at h
  · rename_i he; exact absurd (by simpa using he) hb
  · cases hl : detectLoop W T sort (ctxOf T b s) incl excl (probeOrder T.supported (prioritized T b s.preemptive)) {} with
    | error e => simp [hl] at h
    | ok out =>
      have hv := C06_loop hperm hT hnd hl
      simp only [hl] at h
      cases hv with
      | exit pre hint post x h1 h2 h3 h4 h5 =>
        simp only [Except.ok.injEq] at h
        left
        exact ⟨pre, hint, post, x, h1, h2, h3, h4, h5, h.symm⟩
      | done st h1 =>
        simp only [Except.ok.injEq] at h
        right
        exact ⟨h1, st, hl, h.symm⟩

/-- only hints can qualify: the early exit is never triggered by an ordinary code page -/
theorem C06_only_hints_qualify {W : World E L} {T : Tables E} {b : Bytes} {s : Settings} {e : E}
    (h : Qualifies W T (ctxOf T b s) e) : e ∈ prioritized T b s.preemptive := by
  obtain ⟨m, _, hex⟩ := h
  rcases exitCond_hint hex with h1 | h1
  · simpa [ctxOf] using h1
  · simp only [ctxOf] at h1
    simp only [prioritized, List.mem_append, Option.mem_toList, List.mem_cons]
    left; right
    cases hs : sigOf T.marks b with
    | none => simp [hs] at h1
    | some p => simp only [hs, Option.map_some, Option.some.injEq] at h1 ⊢; exact h1

/-! ### the current tree -/

/-- T1 obligation: ascii, utf-8 and the marked encodings are not keys of the similarity table -/
theorem hintsNotSimilarKeys_now : HintsNotSimilarKeys tablesNow := by
  have h : (([nASCII, nUTF8] ++ Gen.marks.map (·.1)).all (fun e => (lookupName Gen.similar e).isNone)) = true := by
    decide +kernel
  intro e he f
  have hmem : e ∈ [nASCII, nUTF8] ++ Gen.marks.map (·.1) := by
    rcases he with he | he | he
    · subst he; simp [tablesNow]
    · subst he; simp [tablesNow]
    · simp only [List.mem_append]; right; exact he
  have := List.all_eq_true.mp h e hmem
  show similarOf Gen.similar e f = false
  unfold similarOf
  cases hl : lookupName Gen.similar e with
  | none => rfl
  | some l => rw [hl] at this; cases this

end Charset
