/-
  C01 — every reported candidate really decodes the input.
-/
import CharsetProof.Lemmas.EntryFacts
import CharsetProof.Lemmas.SortPerm
import CharsetProof.Props.C07
import CharsetProof.Lemmas.Codec
set_option linter.unusedSectionVars false
namespace Charset
variable {E L : Type} [DecidableEq E]

/-- the input without `e`'s own byte-order mark / signature, when it starts with it -/
def stripMark (T : Tables E) (b : Bytes) (e : E) : Bytes :=
  match sigOf T.marks b with
  | some (e', mk) => if e' = e then b.drop mk.length else b
  | none => b

theorem drop_startIdx {T : Tables E} {b : Bytes} {s : Settings} {e : E} :
    b.drop (startIdxOf (ctxOf T b s) e) = stripMark T b e := by
  unfold stripMark
  cases h : sigOf T.marks b with
  | none =>
    have : bomHereOf (ctxOf T b s) e = false := by
      cases hb : bomHereOf (ctxOf T b s) e with
      | false => rfl
      | true => obtain ⟨mk, hmk⟩ := bomHere_iff.mp hb; rw [h] at hmk; cases hmk
    simp [startIdxOf, this]
  | some p =>
    obtain ⟨e', mk⟩ := p
    by_cases he : e' = e
    · subst he
      rw [startIdx_of_sig h]; simp
    · have : bomHereOf (ctxOf T b s) e = false := by
        cases hb : bomHereOf (ctxOf T b s) e with
        | false => rfl
        | true =>
          obtain ⟨mk', hmk⟩ := bomHere_iff.mp hb
          rw [h] at hmk; simp only [Option.some.injEq, Prod.mk.injEq] at hmk
          exact absurd hmk.1 he
      simp [startIdxOf, this, he]

/-- laws of single-byte (table) codecs used only on the lazy path (> `TOO_BIG_SEQUENCE` bytes):
    proved for the Lean table codec in `Lemmas/Codec.lean`, instantiated in `C01_current` -/
structure LazyLaws (W : World E L) (T : Tables E) : Prop where
  chunkEq : ∀ e x, e ∈ T.supported → T.isMultiByte e = false → W.decodeChunk e x = W.decode e x
  hom : ∀ e x y tx ty, e ∈ T.supported → T.isMultiByte e = false →
    W.decode e x = .ok (some tx) → W.decode e y = .ok (some ty) →
    W.decode e (x ++ y) = .ok (some (tx ++ ty))
  noFeff : ∀ e x t, e ∈ T.supported → T.isMultiByte e = false → W.decode e x = .ok (some t) →
    t.head? ≠ some 0xFEFF

theorem stripFeff_of_head {t : Text} (h : t.head? ≠ some 0xFEFF) : stripFeff t = t := by
  unfold stripFeff
  split
  · simp at h
  · rfl

/-- **C01 (decodes + raw)** — for every world satisfying the lazy-path laws and every table set whose
    marked encodings are multi-byte, on non-empty input every candidate entry `c` (main encoding or
    alternative) of every returned match hands back the input bytes unmodified and exposes exactly
    the strict decode of the input minus `c.enc`'s own mark. -/
theorem C01_decodes {W : World E L} {T : Tables E} {sort : Sorter E L}
    (hperm : ∀ l, (sort l).Perm l) (hmb : ∀ em ∈ T.marks, T.isMultiByte em.1 = true) (laws : LazyLaws W T)
    {b : Bytes} {s : Settings} {incl excl : List E}
    (hincl : canonList T.ianaName s.incl = .ok incl) (hexcl : canonList T.ianaName s.excl = .ok excl)
    {ms : List (Match E L)} (hb : b ≠ []) (h : fromBytes W T sort b s = .ok (.ok ms)) :
    ∀ m ∈ ms, ∀ c ∈ m.entries,
      c.raw = b ∧ ∃ t, W.decode c.enc (stripMark T b c.enc) = .ok (some t) ∧ c.text = some t := by
  have core : ∀ e (text : Option Text), e ∈ T.supported → TextOk W T (ctxOf T b s) e text →
      RemainderOk W T (ctxOf T b s) e →
      ∃ t, W.decode e (stripMark T b e) = .ok (some t) ∧ text = some t := by
    intro e text hsup htext hrem
    cases hl : lazyOf T (ctxOf T b s) e with
    | false =>
      obtain ⟨t0, hdec, ht, _⟩ := htext.1 hl
      rw [show (ctxOf T b s).b = b from rfl, drop_startIdx] at hdec
      exact ⟨t0, hdec, ht⟩
    | true =>
      have hnmb : T.isMultiByte e = false := by
        unfold lazyOf at hl; simp only [Bool.and_eq_true, Bool.not_eq_eq_eq_not, Bool.not_true] at hl; exact hl.2
      have hnb : bomHereOf (ctxOf T b s) e = false := by
        cases hbh : bomHereOf (ctxOf T b s) e with
        | false => rfl
        | true =>
          obtain ⟨mk, hmk⟩ := bomHere_iff.mp hbh
          have := hmb _ (sigOf_some hmk).1
          simp only at this; rw [hnmb] at this; cases this
      have hstart : startIdxOf (ctxOf T b s) e = 0 := by simp [startIdxOf, hnb]
      obtain ⟨t0, r, hdec, _, _, hchunk, ht⟩ := htext.2 hl
      obtain ⟨t2, hrem2⟩ := hrem hl
      rw [hstart] at hdec
      simp only [List.drop_zero, Nat.sub_zero, show (ctxOf T b s).b = b from rfl] at hdec hrem2 hchunk
      have hwhole := laws.hom e _ _ t0 t2 hsup hnmb hdec hrem2
      rw [List.take_append_drop] at hwhole
      rw [laws.chunkEq e b hsup hnmb, hwhole] at hchunk
      cases hchunk
      have hstrip : stripMark T b e = b := by
        rw [← drop_startIdx (s := s), hstart]; rfl
      refine ⟨t0 ++ t2, by rw [hstrip]; exact hwhole, ?_⟩
      rw [ht]; simp only [Option.map_some, Option.some.injEq]
      exact stripFeff_of_head (laws.noFeff e b _ hsup hnmb hwhole)
  rcases fromBytes_facts hperm hincl hexcl hb h with hall | ⟨fb, rfl, hfb, _⟩
  · intro m hm c hc
    have f := (Match.allEntries_iff.mp (hall m hm)) c hc
    exact ⟨f.raw, core c.enc c.text f.supported f.text f.remainder⟩
  · intro m hm c hc
    simp only [List.mem_singleton] at hm
    subst hm
    have f := (Match.allEntries_iff.mp hfb) c hc
    exact ⟨f.raw, core c.enc c.text f.supported f.text f.remainder⟩

/-- C01 without any law of the world, for inputs that are not decoded lazily -/
theorem C01_decodes_small {W : World E L} {T : Tables E} {sort : Sorter E L}
    (hperm : ∀ l, (sort l).Perm l) {b : Bytes} {s : Settings} {incl excl : List E}
    (hincl : canonList T.ianaName s.incl = .ok incl) (hexcl : canonList T.ianaName s.excl = .ok excl)
    {ms : List (Match E L)} (hb : b ≠ []) (hsmall : b.length ≤ T.tooBig)
    (h : fromBytes W T sort b s = .ok (.ok ms)) :
    ∀ m ∈ ms, ∀ c ∈ m.entries,
      c.raw = b ∧ ∃ t, W.decode c.enc (stripMark T b c.enc) = .ok (some t) ∧ c.text = some t := by
  have hl : ∀ e, lazyOf T (ctxOf T b s) e = false := by
    intro e; unfold lazyOf ctxOf
    have : decide (T.tooBig < b.length) = false := by simp; omega
    simp [this]
  have core : ∀ e (text : Option Text), TextOk W T (ctxOf T b s) e text →
      ∃ t, W.decode e (stripMark T b e) = .ok (some t) ∧ text = some t := by
    intro e text htext
    obtain ⟨t0, hdec, ht, _⟩ := htext.1 (hl e)
    rw [show (ctxOf T b s).b = b from rfl, drop_startIdx] at hdec
    exact ⟨t0, hdec, ht⟩
  rcases fromBytes_facts hperm hincl hexcl hb h with hall | ⟨fb, rfl, hfb, _⟩
  · intro m hm c hc
    have f := (Match.allEntries_iff.mp (hall m hm)) c hc
    exact ⟨f.raw, core c.enc c.text f.text⟩
  · intro m hm c hc
    simp only [List.mem_singleton] at hm
    subst hm
    have f := (Match.allEntries_iff.mp hfb) c hc
    exact ⟨f.raw, core c.enc c.text f.text⟩

/-! ### the current tree -/

theorem decodeNow_table {o : Oracle} {chunk : Bool} {e : Name} {tbl : List Nat} {x : Bytes}
    (hc : codecNow e = some (.table tbl)) (hmb : Gen.multiByte.contains e = false) :
    decodeNow o chunk e x = .ok (match tableStrict tbl x with | .ok t => some t | .error _ => none) := by
  unfold decodeNow
  simp only [hc, Codec.strict, decodeStrict, hmb, Bool.false_eq_true, and_false, ↓reduceIte]
  split <;> simp_all

/-- the lazy-path laws hold for the model instance the driver executes -/
theorem lazyLaws_now (o : Oracle) : LazyLaws (worldNow o) tablesNow where
  chunkEq := by
    intro e x hs hmb
    obtain ⟨tbl, hc, _⟩ := codecNow_table hs hmb
    show decodeNow o true e x = decodeNow o false e x
    rw [decodeNow_table hc hmb, decodeNow_table hc hmb]
  hom := by
    intro e x y tx ty hs hmb hx hy
    obtain ⟨tbl, hc, _⟩ := codecNow_table hs hmb
    change decodeNow o false e x = _ at hx
    change decodeNow o false e y = _ at hy
    show decodeNow o false e (x ++ y) = _
    rw [decodeNow_table hc hmb] at hx hy ⊢
    cases hx' : tableStrict tbl x with
    | error k => simp [hx'] at hx
    | ok t1 =>
      cases hy' : tableStrict tbl y with
      | error k => simp [hy'] at hy
      | ok t2 =>
        simp only [hx', Except.ok.injEq, Option.some.injEq] at hx
        simp only [hy', Except.ok.injEq, Option.some.injEq] at hy
        subst hx; subst hy
        rw [tableStrict_append tbl x y t1 t2 hx' hy']
  noFeff := by
    intro e x t hs hmb hx
    obtain ⟨tbl, hc, hno⟩ := codecNow_table hs hmb
    change decodeNow o false e x = _ at hx
    rw [decodeNow_table hc hmb] at hx
    cases hx' : tableStrict tbl x with
    | error k => simp [hx'] at hx
    | ok t1 =>
      simp only [hx', Except.ok.injEq, Option.some.injEq] at hx
      subst hx
      intro hhead
      have hmem : (0xFEFF : Nat) ∈ t1 := by
        cases t1 with
        | nil => simp at hhead
        | cons a as => simp only [List.head?_cons, Option.some.injEq] at hhead; simp [hhead]
      have := tableStrict_mem tbl x t1 hx' _ hmem
      have hc2 : tbl.contains 0xFEFF = true := by simpa using this
      rw [hno] at hc2; cases hc2

/-- **C01 for the current tree**: every candidate's text is the model's strict decode (Lean definitions for
    every supported encoding: tables, UTF-8, UTF-16, the multi-byte legacy decoders) of the input minus its own mark -/
theorem C01_decodes_current (o : Oracle) {b : Bytes} {s : Settings} {incl excl : List Name}
    (hincl : canonList ianaNow s.incl = .ok incl) (hexcl : canonList ianaNow s.excl = .ok excl)
    {ms : List (Match Name Name)} (hb : b ≠ [])
    (h : fromBytes (worldNow o) tablesNow sortMatches b s = .ok (.ok ms)) :
    ∀ m ∈ ms, ∀ c ∈ m.entries,
      c.raw = b ∧ ∃ t, (worldNow o).decode c.enc (stripMark tablesNow b c.enc) = .ok (some t) ∧ c.text = some t :=
  C01_decodes (sortMatches_perm) marksMultiByte_now (lazyLaws_now o) hincl hexcl hb h

end Charset
