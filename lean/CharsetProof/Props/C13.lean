/-
  C13 — inputs that fit the analysis window are analysed in full.
-/
import CharsetProof.Lemmas.EntryFacts
import CharsetProof.Lemmas.SortPerm
import CharsetProof.Model.Concrete
set_option linter.unusedSectionVars false
namespace Charset
variable {E L : Type} [DecidableEq E]

/-- the input fits the analysis window -/
def Fits (b : Bytes) (s : Settings) : Prop := b.length ≤ s.chunk * s.steps

/-- **C13 (window collapse)**: an input that fits is analysed as one chunk spanning everything -/
theorem C13_normWindow_fit {len steps chunk : Nat} (h : len ≤ chunk * steps) :
    normWindow len steps chunk = (1, len) := by
  unfold normWindow
  simp [h]

/-- **C13 (window parameters irrelevant)**: any two settings whose windows both cover the input and
    that agree elsewhere give the *same* result (same matches, order, scores, everything) -/
theorem C13_window_irrelevant {W : World E L} {T : Tables E} {sort : Sorter E L} {b : Bytes} {s s' : Settings}
    (hfit : Fits b s) (hfit' : Fits b s')
    (hrest : s'.thr = s.thr ∧ s'.langThr = s.langThr ∧ s'.incl = s.incl ∧ s'.excl = s.excl ∧
      s'.preemptive = s.preemptive ∧ s'.fallback = s.fallback ∧ s'.trace = s.trace) :
    fromBytes W T sort b s' = fromBytes W T sort b s := by
  obtain ⟨h1, h2, h3, h4, h5, h6, h7⟩ := hrest
  unfold fromBytes ctxOf
  rw [C13_normWindow_fit hfit, C13_normWindow_fit hfit', h1, h2, h3, h4, h5, h6, h7]

theorem offsets_single (n : Nat) : offsets 0 n (max n 1) = if n = 0 then [] else [0] := by
  unfold offsets
  by_cases hn : n = 0
  · subst hn; simp
  · have h1 : max n 1 = n := by omega
    have h2 : (n - 0 + n - 1) / n = 1 := by
      have : n - 0 + n - 1 = n + (n - 1) := by omega
      rw [this, Nat.add_div_left _ (by omega)]
      have : (n - 1) / n = 0 := Nat.div_eq_of_lt (by omega)
      omega
    rw [h1, h2, if_neg hn]
    simp

/-- chaos of a text analysed as a single chunk: a function of the text and the threshold only -/
def chaosOfText (W : World E L) (t : Text) (thr : F32) : M F32 :=
  if t.isEmpty then .ok Fl.zero
  else match W.mess t thr with
    | .error s => .error s
    | .ok r => .ok (meanRatio [r])

/-- the chunk analysis of a decoded payload that fits the window -/
theorem probeChunks_fit {W : World E L} {T : Tables E} {c : Ctx E} {e : E} {p : Prepared} {acc : ChunkAcc}
    {t : Text} (hsteps : c.steps = 1) (hpay : p.payload = some t) (hlen : t.length ≤ c.chunk)
    (h : probeChunks W T c e p = .ok acc) (hl : acc.lazyHard = false) :
    chaosOfText W t c.thr = .ok (meanRatio acc.ratios) := by
  unfold probeChunks at h
  have hseq : seqLenOf c p = t.length := by simp [seqLenOf, hpay]
  have hstart : startOffOf p = 0 := by simp [startOffOf, hpay]
  rw [hseq, hstart, hsteps] at h
  simp only [divF, Nat.succ_ne_zero, ↓reduceIte, Nat.div_one] at h
  rw [offsets_single] at h
  unfold chaosOfText
  by_cases hn : t.length = 0
  · have ht : t = [] := List.eq_nil_of_length_eq_zero hn
    subst ht
    simp only [List.length_nil, ↓reduceIte, chunkLoop, Except.ok.injEq] at h
    subst h
    simp [meanRatio]
  · rw [if_neg hn] at h
    have hne : t.isEmpty = false := by
      cases t with
      | nil => simp at hn
      | cons a as => rfl
    simp only [hne, Bool.false_eq_true, ↓reduceIte]
    have hchunk : chunkAt W T c e (some t) t.length 0 = .ok (validChunk T e t) := by
      simp [chunkAt, List.take_of_length_le hlen]
    rw [hpay] at h
    simp only [chunkLoop, hchunk] at h
    cases hv : validChunk T e t with
    | none =>
      simp only [hv, Except.ok.injEq] at h
      subst h
      simp at hl
    | some ch =>
      have hch : ch = t := by
        unfold validChunk at hv
        split at hv
        · cases hv
        · cases hv; rfl
      subst hch
      simp only [hv] at h
      split at h
      · cases h
      · rename_i r hr
        rw [hr]
        have hmg : ¬ (maxGaveUpOf c ≤ earlyNext c.thr r 0) := by
          unfold maxGaveUpOf earlyNext
          split <;> omega
        simp only [hmg, ↓reduceIte, List.nil_append, Except.ok.injEq] at h
        subst h
        rfl

/-- **C13 (chaos = g(text, threshold))**: for an input that fits the window, on the non-lazy path
    (at most `TOO_BIG_SEQUENCE` bytes, or a multi-byte encoding), in a world whose decoders produce
    at most one character per byte, the chaos of every regular candidate is `chaosOfText` of its
    decoded text — it depends on nothing else (not on the encoding, the BOM, the bytes). -/
theorem C13_chaos_of_text {W : World E L} {T : Tables E} {sort : Sorter E L}
    (hperm : ∀ l, (sort l).Perm l)
    (hchars : ∀ e x t, e ∈ T.supported → W.decode e x = .ok (some t) → t.length ≤ x.length)
    {b : Bytes} {s : Settings} {incl excl : List E}
    (hincl : canonList T.ianaName s.incl = .ok incl) (hexcl : canonList T.ianaName s.excl = .ok excl)
    (hfit : Fits b s) (hthr : s.thr.isNaN = false)
    {ms : List (Match E L)} (hb : b ≠ []) (h : fromBytes W T sort b s = .ok (.ok ms)) :
    ∀ m ∈ ms, ∀ c ∈ m.entries, Fl.ge c.chaos s.thr = false →
      (b.length ≤ T.tooBig ∨ T.isMultiByte c.enc = true) →
      ∃ t, c.text = some t ∧ chaosOfText W t s.thr = .ok c.chaos := by
  have hctx : (ctxOf T b s).steps = 1 ∧ (ctxOf T b s).chunk = b.length := by
    unfold ctxOf; simp [C13_normWindow_fit hfit]
  have core : ∀ c : Sub E L, EntryAcc W T (ctxOf T b s) incl excl c →
      (b.length ≤ T.tooBig ∨ T.isMultiByte c.enc = true) →
      ∃ t, c.text = some t ∧ chaosOfText W t s.thr = .ok c.chaos := by
    intro c f hsmall
    have hl : lazyOf T (ctxOf T b s) c.enc = false := by
      unfold lazyOf ctxOf
      rcases hsmall with h1 | h1
      · have : decide (T.tooBig < b.length) = false := by simp; omega
        simp [this]
      · simp [h1]
    obtain ⟨t0, hdec, ht, _⟩ := f.text.1 hl
    obtain ⟨p, acc, _, _, _, hp4, _, hp6, hp7, hp8, _⟩ := f.chunksFact
    have hpay : p.payload = some t0 := by rw [hp4 hl, ht]
    have hlen : t0.length ≤ (ctxOf T b s).chunk := by
      rw [hctx.2]
      have := hchars _ _ _ f.supported hdec
      simp only [List.length_drop] at this
      have hbb : (ctxOf T b s).b = b := rfl
      rw [hbb] at this
      omega
    have := probeChunks_fit hctx.1 hpay hlen hp6 hp8
    exact ⟨t0, ht, by rw [hp7]; exact this⟩
  rcases fromBytes_facts hperm hincl hexcl hb h with hall | ⟨fb, rfl, hfb, _⟩
  · intro m hm c hc _ hsmall
    exact core c ((Match.allEntries_iff.mp (hall m hm)) c hc) hsmall
  · intro m hm c hc hge _
    -- a fallback entry has chaos = threshold and is excluded by `ge chaos thr = false`
    simp only [List.mem_singleton] at hm
    subst hm
    have f := (Match.allEntries_iff.mp hfb) c hc
    exfalso
    rw [f.chaos] at hge
    simp only [ctxOf] at hge
    simp [Fl.ge, Fl.le, hthr] at hge

/-- **C13 (same text ⇒ same chaos)**: corollary — two candidates (of the same or of different runs,
    encodings, inputs, with or without BOM) whose texts coincide have the same chaos under the same
    threshold, because both equal `chaosOfText` of that text -/
theorem C13_same_text_same_chaos {W : World E L} {t : Text} {thr : F32} {c1 c2 : F32}
    (h1 : chaosOfText W t thr = .ok c1) (h2 : chaosOfText W t thr = .ok c2) : c1 = c2 := by
  rw [h1] at h2; cases h2; rfl

/-- T1/model obligation for the modelled codecs: one character per byte at most.
    (table codecs: exactly one; used to instantiate `hchars` for single-byte encodings) -/
theorem table_chars_le_bytes (tbl : List Nat) (x : Bytes) (t : Text) (h : tableStrict tbl x = .ok t) :
    t.length ≤ x.length := by
  induction x generalizing t with
  | nil => simp only [tableStrict] at h; cases h; simp
  | cons b bs ih =>
    simp only [tableStrict] at h
    split at h
    · cases h
    · split at h
      · cases h
      · split at h
        · cases h
        · rename_i t' ht'
          cases h
          have := ih t' ht'
          simp; omega

/-- non-vacuity: a concrete fitting window collapses -/
example : normWindow 11 5 512 = (1, 11) ∧ (List.replicate 11 65).length ≤ 512 * 5 := by
  decide +kernel

end Charset
