/-
  C04 (c) — "every returned match has a finite chaos with 0 <= chaos < threshold": the lower bound and
  finiteness.  `C04_threshold`/`C04_lt` give `chaos < threshold`; here `0 ≤ chaos`, not NaN, finite,
  first for every world whose `mess` is non-negative (`C04_chaos_range`), then for the current tree
  with the eight plugins of `md/plugins.rs` modelled (`C04_chaos_range_md`), where that hypothesis is
  the theorem `Md.messRatio_ok`.
-/
import CharsetProof.Props.C04
import CharsetProof.Lemmas.Chaos
import CharsetProof.Lemmas.Md
import CharsetProof.Model.MdWorld
import CharsetProof.Generated.Inventory
set_option linter.unusedSectionVars false
namespace Charset
variable {E L : Type} [DecidableEq E]
open Fl

/-- **C04 (c)** — for every world whose mess detector returns non-negative numbers, every tables,
    permutation-sort, non-empty input and settings with `steps < 2^62`: every candidate of every
    regular match has `0 ≤ chaos`, chaos is a number, and (threshold being a number) chaos is
    finite and `< threshold`; otherwise the result is the single fallback match of `C04_threshold`. -/
theorem C04_chaos_range {W : World E L} {T : Tables E} {sort : Sorter E L}
    (hperm : ∀ l, (sort l).Perm l)
    (hmess : ∀ t thr r, W.mess t thr = .ok r → Ok r)
    {b : Bytes} {s : Settings} {incl excl : List E} (hsteps : s.steps < 2 ^ 62)
    (hthr : s.thr.isNaN = false)
    (hincl : canonList T.ianaName s.incl = .ok incl) (hexcl : canonList T.ianaName s.excl = .ok excl)
    {ms : List (Match E L)} (hb : b ≠ []) (h : fromBytes W T sort b s = .ok (.ok ms)) :
    (∀ m ∈ ms, ∀ c ∈ m.entries,
        0 ≤ c.chaos.key ∧ c.chaos.isNaN = false ∧ c.chaos.isFinite = true ∧ Fl.lt c.chaos s.thr = true) ∨
    (∃ fb, ms = [fb] ∧ fb.subs = [] ∧ fb.chaos = s.thr ∧ s.fallback = true ∧ fb.enc ∈ hintsOf T b s) := by
  rcases fromBytes_facts hperm hincl hexcl hb h with hall | ⟨fb, rfl, hfb, hsubs⟩
  · left
    intro m hm c hc
    have f := Match.allEntries_iff.mp (hall m hm) c hc
    obtain ⟨p, acc, _, _, _, _, _, hpc, hch, _, _⟩ := f.chunksFact
    have hlen := probeChunks_len hpc
    have hst : (ctxOf T b s).steps ≤ max s.steps 1 := normWindow_steps_le _ _ _
    have hok : Ok c.chaos := by
      rw [hch]
      refine meanRatio_ok _ (fun r hr => ?_) (by omega)
      obtain ⟨t, ht⟩ := probeChunks_ratios hpc r hr
      exact hmess _ _ _ ht
    have hnan := ok_not_nan hok
    have hbelow : Fl.ge c.chaos s.thr = false := f.below
    have hlt := Fl.lt_of_not_ge hnan hthr hbelow
    refine ⟨hok.1, hnan, ?_, hlt⟩
    -- finite: 0 ≤ key < thr.key ≤ infKey
    simp only [Fl.lt, hnan, hthr, Bool.not_false, Bool.true_and, decide_eq_true_eq] at hlt
    simp only [Fl.isNaN, decide_eq_false_iff_not, Nat.not_lt] at hthr
    simp only [Fl.isFinite, decide_eq_true_eq]
    have := hok.1
    omega
  · right
    have f := hfb.1
    refine ⟨fb, rfl, hsubs, f.chaos, f.enabled, ?_⟩
    have := f.hint
    simpa [hintsOf, ctxOf, Match.toSub] using this

/-- the hypothesis of `C04_chaos_range` is a theorem once the plugins are inside the model -/
theorem worldMd_mess_ok (env : Md.MdEnv) (o : Oracle) :
    ∀ t thr r, (worldMd env o).mess t thr = .ok r → Ok r := by
  intro t thr r h
  simp only [worldMd, messGuarded] at h
  split at h
  · cases h
    exact Md.messRatio_ok env t thr (by assumption)
  · cases h

/-- **C04 (c), current tree, mess detector modelled** — no hypothesis about the mess detector is left:
    for every Unicode table `env`, every oracle for the remaining components, every input and settings -/
theorem C04_chaos_range_md (env : Md.MdEnv) (o : Oracle) {b : Bytes} {s : Settings} {incl excl : List Name}
    (hsteps : s.steps < 2 ^ 62) (hthr : s.thr.isNaN = false)
    (hincl : canonList ianaNow s.incl = .ok incl) (hexcl : canonList ianaNow s.excl = .ok excl)
    {ms : List (Match Name Name)} (hb : b ≠ [])
    (h : fromBytes (worldMd env o) tablesNow sortMatches b s = .ok (.ok ms)) :
    (∀ m ∈ ms, ∀ c ∈ m.entries,
        0 ≤ c.chaos.key ∧ c.chaos.isNaN = false ∧ c.chaos.isFinite = true ∧ Fl.lt c.chaos s.thr = true) ∨
    (∃ fb, ms = [fb] ∧ fb.subs = [] ∧ fb.chaos = s.thr ∧ s.fallback = true ∧ fb.enc ∈ hintsOf tablesNow b s) :=
  C04_chaos_range sortMatches_perm (worldMd_mess_ok env o) hsteps hthr hincl hexcl hb h

/-- **the anchor "every detector plugin returns a non-negative ratio, division guarded"** -/
theorem C04_mess_ratio_nonneg (env : Md.MdEnv) (t : Text) (thr : F32) (ht : t.length + 1 < 2 ^ 64) :
    0 ≤ (Md.messRatio env t thr).key ∧ (Md.messRatio env t thr).isNaN = false :=
  ⟨(Md.messRatio_ok env t thr ht).1, ok_not_nan (Md.messRatio_ok env t thr ht)⟩

/-- tie T2: the flag bits the model tests are the ones `md/structs.rs` declares, and the order in which
    the ratios are summed is the order of the `detectors` vector in `md.rs` (float addition is not
    associative) – re-extracted from the source text on every run -/
theorem C04_md_flags_covered :
    (Inv.mdFlags == Md.flagTable.map (fun p => (nameOfStr p.1, p.2))) = true ∧
    (Inv.mdDetectors == Md.detectorOrder.map nameOfStr) = true := by decide +kernel

/-- non-vacuity: the guards matter – without the `character_count == 0` guard the first plugin would
    compute `0/0`, which is NaN in the float model -/
example : (Fl.div (Fl.ofNat fmt32 0) (Fl.ofNat fmt32 0) : F32).isNaN = true := by decide +kernel

end Charset
