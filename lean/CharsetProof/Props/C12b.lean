/-
  C12 for nested memoised calls over several caches (Model/ConcNested.lean): for every number of threads,
  every nesting of cached calls and EVERY schedule – safety (every activation returns the value of its own
  call, every thread ends with the value of its outermost call, all caches stay correct), mutual exclusion
  bookkeeping (a thread holds at most the mutex of its innermost activation), and progress (as long as a
  thread is unfinished some thread can step: no deadlock although several mutexes exist, because a thread
  never waits for a mutex while holding one).
-/
import CharsetProof.Model.ConcNested
import CharsetProof.Props.C12
set_option linter.unusedSectionVars false
namespace Charset
namespace Nested
variable {K V : Type} [DecidableEq K]

/-- facts about the innermost activation of a thread -/
def TopOk (F : Funs K V) (fr : Frame K V) : Prop :=
  match fr.pc with
  | .computed v => v = F.val fr.c fr.k
  | .locked2 v => v = F.val fr.c fr.k
  | .body todo acc => ∃ done, F.inner fr.c fr.k = done ++ todo ∧ acc = done.map (fun p => F.val p.1 p.2)
  | _ => True

/-- a caller in the middle of its body, waiting for the nested call `child` -/
def Waiting (F : Funs K V) (parent : Frame K V) (child : Call K) : Prop :=
  match parent.pc with
  | .body todo acc =>
    ∃ done, F.inner parent.c parent.k = done ++ child :: todo ∧ acc = done.map (fun p => F.val p.1 p.2)
  | _ => False

def ChainOk (F : Funs K V) : List (Frame K V) → Prop
  | [] => True
  | [_] => True
  | fr :: parent :: rest => Waiting F parent (fr.c, fr.k) ∧ ChainOk F (parent :: rest)

structure ThreadOk (F : Funs K V) (t : Thread K V) : Prop where
  top : ∀ fr rest, t.stack = fr :: rest → TopOk F fr
  chain : ChainOk F t.stack
  bottom : ∀ fr, t.stack.getLast? = some fr → (fr.c, fr.k) = t.root
  result : ∀ v, t.result = some v → v = F.val t.root.1 t.root.2
  /-- a thread is finished exactly when it has a result -/
  fin : t.stack = [] → t.result.isSome = true

/-- the mutex a thread holds: that of its innermost activation, if that activation is in a critical section -/
def topHolds (t : Thread K V) : Option Nat :=
  match t.stack with
  | fr :: _ => if holds fr.pc then some fr.c else none
  | [] => none

structure LocksOk (locks : Nat → Option Nat) (threads : List (Thread K V)) : Prop where
  holder : ∀ (c i : Nat), locks c = some i → ∃ t : Thread K V, threads[i]? = some t ∧ topHolds t = some c
  excl : ∀ (i : Nat) (t : Thread K V) (c : Nat), threads[i]? = some t → topHolds t = some c → locks c = some i

structure Good (F : Funs K V) (s : Sys K V) : Prop where
  cacheOk : ∀ c, CacheOk (F.val c) (s.caches c)
  threadsOk : ∀ (i : Nat) (t : Thread K V), s.threads[i]? = some t → ThreadOk F t
  locksOk : LocksOk s.locks s.threads

/-! ### bookkeeping of the mutexes -/

theorem locks_update {locks : Nat → Option Nat} {threads : List (Thread K V)} {i : Nat} {t t' : Thread K V}
    (h : LocksOk locks threads) (hi : threads[i]? = some t) (h0 : topHolds t = none) (h1 : topHolds t' = none) :
    LocksOk locks (threads.set i t') := by
  constructor
  · intro c j hj
    obtain ⟨tj, htj, hh⟩ := h.holder c j hj
    by_cases hji : j = i
    · subst hji; rw [hi] at htj; cases htj; rw [h0] at hh; cases hh
    · exact ⟨tj, by rw [List.getElem?_set_ne (fun e => hji e.symm)]; exact htj, hh⟩
  · intro j tj c htj hh
    rcases getElem?_set_cases _ _ _ _ _ htj with ⟨_, rfl, _⟩ | ⟨_, hold⟩
    · rw [h1] at hh; cases hh
    · exact h.excl j tj c hold hh

theorem locks_acquire {locks : Nat → Option Nat} {threads : List (Thread K V)} {i c : Nat} {t t' : Thread K V}
    (h : LocksOk locks threads) (hi : threads[i]? = some t) (h0 : topHolds t = none) (hfree : locks c = none)
    (h1 : topHolds t' = some c) : LocksOk (setLock locks c (some i)) (threads.set i t') := by
  have hlt : i < threads.length := by
    rcases Nat.lt_or_ge i threads.length with h' | h'
    · exact h'
    · rw [List.getElem?_eq_none h'] at hi; cases hi
  constructor
  · intro c' j hj
    unfold setLock at hj
    by_cases hc : c' = c
    · subst hc
      simp only [↓reduceIte, Option.some.injEq] at hj
      subst hj
      exact ⟨t', List.getElem?_set_self hlt, h1⟩
    · simp only [hc, ↓reduceIte] at hj
      obtain ⟨tj, htj, hh⟩ := h.holder c' j hj
      by_cases hji : j = i
      · subst hji; rw [hi] at htj; cases htj; rw [h0] at hh; cases hh
      · exact ⟨tj, by rw [List.getElem?_set_ne (fun e => hji e.symm)]; exact htj, hh⟩
  · intro j tj c' htj hh
    rcases getElem?_set_cases _ _ _ _ _ htj with ⟨rfl, rfl, _⟩ | ⟨hne, hold⟩
    · rw [h1] at hh; cases hh
      simp [setLock]
    · have := h.excl j tj c' hold hh
      unfold setLock
      by_cases hc : c' = c
      · subst hc; rw [hfree] at this; cases this
      · simp only [hc, ↓reduceIte]; exact this

theorem locks_release {locks : Nat → Option Nat} {threads : List (Thread K V)} {i c : Nat} {t t' : Thread K V}
    (h : LocksOk locks threads) (hi : threads[i]? = some t) (h0 : topHolds t = some c) (h1 : topHolds t' = none) :
    LocksOk (setLock locks c none) (threads.set i t') := by
  have hown : locks c = some i := h.excl i t c hi h0
  constructor
  · intro c' j hj
    unfold setLock at hj
    by_cases hc : c' = c
    · subst hc; simp at hj
    · simp only [hc, ↓reduceIte] at hj
      obtain ⟨tj, htj, hh⟩ := h.holder c' j hj
      by_cases hji : j = i
      · subst hji; rw [hi] at htj; cases htj; rw [h0] at hh; cases hh; exact absurd rfl hc
      · exact ⟨tj, by rw [List.getElem?_set_ne (fun e => hji e.symm)]; exact htj, hh⟩
  · intro j tj c' htj hh
    rcases getElem?_set_cases _ _ _ _ _ htj with ⟨_, rfl, _⟩ | ⟨hne, hold⟩
    · rw [h1] at hh; cases hh
    · have := h.excl j tj c' hold hh
      unfold setLock
      by_cases hc : c' = c
      · subst hc; rw [hown] at this; cases this; exact absurd rfl hne
      · simp only [hc, ↓reduceIte]; exact this

/-! ### the stacks -/

theorem threads_update {F : Funs K V} {threads : List (Thread K V)} {i : Nat} {t' : Thread K V}
    (h : ∀ (j : Nat) (t : Thread K V), threads[j]? = some t → ThreadOk F t) (h' : ThreadOk F t') :
    ∀ (j : Nat) (t : Thread K V), (threads.set i t')[j]? = some t → ThreadOk F t := by
  intro j t ht
  rcases getElem?_set_cases _ _ _ _ _ ht with ⟨_, rfl, _⟩ | ⟨_, hold⟩
  · exact h'
  · exact h j t hold

/-- replacing the program counter of the innermost activation -/
theorem threadOk_setPc {F : Funs K V} {t : Thread K V} {fr : Frame K V} {rest : List (Frame K V)} {pc : FPC K V}
    (h : ThreadOk F t) (hst : t.stack = fr :: rest) (htop : TopOk F ⟨fr.c, fr.k, pc⟩) :
    ThreadOk F { t with stack := ⟨fr.c, fr.k, pc⟩ :: rest } := by
  refine ⟨?_, ?_, ?_, h.result, ?_⟩
  · intro fr' rest' he
    simp only [List.cons.injEq] at he
    rw [← he.1]; exact htop
  · have := h.chain
    rw [hst] at this
    cases rest with
    | nil => trivial
    | cons p ps => exact this
  · intro fr' hl
    have hb := h.bottom
    rw [hst] at hb
    cases rest with
    | nil =>
      simp only [List.getLast?_singleton, Option.some.injEq] at hl
      have := hb fr (by simp)
      rw [← hl]; exact this
    | cons p ps =>
      simp only [List.getLast?_cons_cons] at hl hb
      exact hb fr' hl
  · intro he; simp at he

/-- an activation finishes with the right value: its caller (or the thread) receives it -/
theorem threadOk_deliver {F : Funs K V} {t : Thread K V} {fr : Frame K V} {rest : List (Frame K V)} {v : V}
    (h : ThreadOk F t) (hst : t.stack = fr :: rest) (hv : v = F.val fr.c fr.k) :
    ThreadOk F (deliver v rest t) ∧ topHolds (deliver v rest t) = none := by
  have hchain := h.chain
  have hbot := h.bottom
  rw [hst] at hchain hbot
  cases rest with
  | nil =>
    simp only [deliver]
    refine ⟨⟨?_, trivial, ?_, ?_, ?_⟩, rfl⟩
    · intro fr' rest' he; cases he
    · intro fr' hl; simp at hl
    · intro v' hv'
      simp only [Option.some.injEq] at hv'
      have := hbot fr (by simp)
      rw [← hv', hv, ← this]
    · intro _; rfl
  | cons p ps =>
    have hw : Waiting F p (fr.c, fr.k) := hchain.1
    unfold Waiting at hw
    simp only [deliver]
    cases hp : p.pc with
    | body todo acc =>
      rw [hp] at hw
      obtain ⟨done, hin, hacc⟩ := hw
      simp only
      refine ⟨⟨?_, ?_, ?_, h.result, ?_⟩, ?_⟩
      · intro fr' rest' he
        simp only [List.cons.injEq] at he
        rw [← he.1]
        show ∃ done', F.inner p.c p.k = done' ++ todo ∧ acc ++ [v] = done'.map (fun q => F.val q.1 q.2)
        refine ⟨done ++ [(fr.c, fr.k)], ?_, ?_⟩
        · rw [hin]; simp
        · rw [hacc, hv]; simp
      · cases ps with
        | nil => trivial
        | cons q qs => exact hchain.2
      · intro fr' hl
        cases ps with
        | nil =>
          simp only [List.getLast?_singleton, Option.some.injEq] at hl
          have := hbot p (by simp)
          rw [← hl]; exact this
        | cons q qs =>
          simp only [List.getLast?_cons_cons] at hl hbot
          exact hbot fr' hl
      · intro he; simp at he
      · simp [topHolds, holds]
    | start => rw [hp] at hw; exact hw.elim
    | locked1 => rw [hp] at hw; exact hw.elim
    | computed x => rw [hp] at hw; exact hw.elim
    | locked2 x => rw [hp] at hw; exact hw.elim


theorem topHolds_cons (fr : Frame K V) (rest : List (Frame K V)) (t : Thread K V) :
    topHolds { t with stack := fr :: rest } = if holds fr.pc then some fr.c else none := rfl

/-- **C12 (nested, safety step)** — one atomic step of any thread preserves the invariant -/
theorem good_step (F : Funs K V) (ev : Nat → Evict K V) (s : Sys K V) (i : Nat) (h : Good F s) :
    Good F (stepThread F ev s i) := by
  unfold stepThread
  cases hti : s.threads[i]? with
  | none => exact h
  | some t =>
    simp only
    have hT := h.threadsOk i t hti
    cases hst : t.stack with
    | nil => exact h
    | cons fr rest =>
      simp only
      have hth : topHolds t = if holds fr.pc then some fr.c else none := by unfold topHolds; rw [hst]
      cases hpc : fr.pc with
      | start =>
        simp only
        have h0 : topHolds t = none := by rw [hth, hpc]; rfl
        cases hl : s.locks fr.c with
        | some j => simp only [Option.isNone_some, Bool.false_eq_true, ↓reduceIte]; exact h
        | none =>
          simp only [Option.isNone_none, ↓reduceIte]
          refine ⟨h.cacheOk, threads_update h.threadsOk (threadOk_setPc hT hst trivial), ?_⟩
          exact locks_acquire h.locksOk hti h0 hl (by simp [topHolds, holds])
      | locked1 =>
        simp only
        have h0 : topHolds t = some fr.c := by rw [hth, hpc]; rfl
        cases hg : cacheGet (s.caches fr.c) fr.k with
        | some v =>
          simp only
          have hv : v = F.val fr.c fr.k := by
            unfold cacheGet at hg
            cases hf : (s.caches fr.c).find? (fun p => p.1 == fr.k) with
            | none => rw [hf] at hg; cases hg
            | some p =>
              rw [hf] at hg
              simp only [Option.map_some, Option.some.injEq] at hg
              have hm := List.mem_of_find?_eq_some hf
              have hk := List.find?_some hf
              simp only [beq_iff_eq] at hk
              rw [← hg, h.cacheOk fr.c p hm, hk]
          obtain ⟨hok, hnh⟩ := threadOk_deliver hT hst hv
          exact ⟨h.cacheOk, threads_update h.threadsOk hok, locks_release h.locksOk hti h0 hnh⟩
        | none =>
          simp only
          refine ⟨h.cacheOk, threads_update h.threadsOk (threadOk_setPc hT hst ?_), ?_⟩
          · exact ⟨[], by simp, rfl⟩
          · exact locks_release h.locksOk hti h0 (by simp [topHolds, holds])
      | body todo acc =>
        have h0 : topHolds t = none := by rw [hth, hpc]; rfl
        have htop : TopOk F fr := hT.top fr rest hst
        unfold TopOk at htop
        rw [hpc] at htop
        obtain ⟨done, hin, hacc⟩ := htop
        cases todo with
        | nil =>
          simp only
          refine ⟨h.cacheOk, threads_update h.threadsOk (threadOk_setPc hT hst ?_), ?_⟩
          · show F.combine fr.c fr.k acc = F.val fr.c fr.k
            rw [F.val_eq, hin, hacc]; simp
          · exact locks_update h.locksOk hti h0 (by simp [topHolds, holds])
        | cons call todo =>
          simp only
          refine ⟨h.cacheOk, threads_update h.threadsOk ?_, ?_⟩
          · refine ⟨?_, ?_, ?_, hT.result, ?_⟩
            · intro fr' rest' he
              simp only [List.cons.injEq] at he
              rw [← he.1]; trivial
            · refine ⟨⟨done, hin, hacc⟩, ?_⟩
              have := hT.chain
              rw [hst] at this
              cases rest with
              | nil => trivial
              | cons p ps => exact this
            · intro fr' hl
              have hb := hT.bottom
              rw [hst] at hb
              cases rest with
              | nil =>
                simp only [List.getLast?_cons_cons, List.getLast?_singleton, Option.some.injEq] at hl
                have := hb fr (by simp)
                rw [← hl]; exact this
              | cons p ps =>
                simp only [List.getLast?_cons_cons] at hl hb
                exact hb fr' hl
            · intro he; simp at he
          · exact locks_update h.locksOk hti h0 (by simp [topHolds, holds])
      | computed v =>
        simp only
        have h0 : topHolds t = none := by rw [hth, hpc]; rfl
        have htop : TopOk F fr := hT.top fr rest hst
        unfold TopOk at htop
        rw [hpc] at htop
        cases hl : s.locks fr.c with
        | some j => simp only [Option.isNone_some, Bool.false_eq_true, ↓reduceIte]; exact h
        | none =>
          simp only [Option.isNone_none, ↓reduceIte]
          refine ⟨h.cacheOk, threads_update h.threadsOk (threadOk_setPc hT hst htop), ?_⟩
          exact locks_acquire h.locksOk hti h0 hl (by simp [topHolds, holds])
      | locked2 v =>
        simp only
        have h0 : topHolds t = some fr.c := by rw [hth, hpc]; rfl
        have htop : TopOk F fr := hT.top fr rest hst
        unfold TopOk at htop
        rw [hpc] at htop
        obtain ⟨hok, hnh⟩ := threadOk_deliver hT hst htop
        refine ⟨?_, threads_update h.threadsOk hok, locks_release h.locksOk hti h0 hnh⟩
        intro c
        unfold setCache
        by_cases hc : c = fr.c
        · subst hc
          simp only [↓reduceIte]
          intro p hp
          have := (ev fr.c).sub _ p hp
          rcases List.mem_cons.mp this with e | hm
          · rw [e]; exact htop
          · exact h.cacheOk fr.c p hm
        · simp only [hc, ↓reduceIte]; exact h.cacheOk c

theorem good_init (F : Funs K V) (caches : Nat → CacheEntries K V) (hc : ∀ c, CacheOk (F.val c) (caches c))
    (calls : List (Call K)) : Good F (initSys caches calls) := by
  refine ⟨hc, ?_, ?_, ?_⟩
  · intro i t ht
    simp only [initSys, List.getElem?_map] at ht
    cases hk : calls[i]? with
    | none => simp [hk] at ht
    | some c =>
      simp only [hk, Option.map_some, Option.some.injEq] at ht
      subst ht
      refine ⟨?_, trivial, ?_, ?_, ?_⟩
      · intro fr rest he; simp only [List.cons.injEq] at he; rw [← he.1]; trivial
      · intro fr hl; simp only [List.getLast?_singleton, Option.some.injEq] at hl; rw [← hl]
      · intro v hv; cases hv
      · intro he; cases he
  · intro c i hi; simp [initSys] at hi
  · intro i t c ht hh
    simp only [initSys, List.getElem?_map] at ht
    cases hk : calls[i]? with
    | none => simp [hk] at ht
    | some c' =>
      simp only [hk, Option.map_some, Option.some.injEq] at ht
      subst ht
      simp [topHolds, holds] at hh

/-- **C12 (nested, safety)** — the invariant holds after every schedule -/
theorem C12_nested_safety (F : Funs K V) (ev : Nat → Evict K V) (sched : List Nat) (s : Sys K V) (h : Good F s) :
    Good F (runSchedule F ev sched s) := by
  induction sched generalizing s with
  | nil => exact h
  | cons i is ih => exact ih _ (good_step F ev s i h)

/-- **C12 (nested, results)** — started together on correct (cold or warm) caches, under every schedule and
    every eviction behaviour, a thread that has finished holds exactly the value of its own outermost call;
    a nested call that returned handed its own value to its caller (that is `ThreadOk`); all caches stay correct. -/
theorem C12_nested_results (F : Funs K V) (ev : Nat → Evict K V) (caches : Nat → CacheEntries K V)
    (hc : ∀ c, CacheOk (F.val c) (caches c)) (calls : List (Call K)) (sched : List Nat) :
    let s := runSchedule F ev sched (initSys caches calls)
    (∀ (i : Nat) (t : Thread K V) (v : V), s.threads[i]? = some t → t.result = some v → v = F.val t.root.1 t.root.2) ∧
    (∀ c, CacheOk (F.val c) (s.caches c)) := by
  have hg := C12_nested_safety F ev sched _ (good_init F caches hc calls)
  exact ⟨fun i t v ht hv => (hg.threadsOk i t ht).result v hv, hg.cacheOk⟩

/-- **C12 (nested, no deadlock)** — although there are several mutexes, as long as some thread is
    unfinished some thread can take a step: a thread waits for a mutex only while holding none, and the
    holder of a mutex is always in a critical section it can leave on its own. -/
theorem C12_nested_no_deadlock (F : Funs K V) (s : Sys K V) (h : Good F s)
    (hunf : ∃ (i : Nat) (t : Thread K V), s.threads[i]? = some t ∧ t.stack ≠ []) :
    ∃ (j : Nat) (t : Thread K V), s.threads[j]? = some t ∧ enabled s.locks t = true := by
  obtain ⟨i, t, ht, hne⟩ := hunf
  cases hst : t.stack with
  | nil => exact absurd hst hne
  | cons fr rest =>
    by_cases hw : wantsLock fr.pc = true
    · cases hl : s.locks fr.c with
      | none => exact ⟨i, t, ht, by simp [enabled, hst, hw, hl]⟩
      | some j =>
        obtain ⟨tj, htj, hh⟩ := h.locksOk.holder fr.c j hl
        refine ⟨j, tj, htj, ?_⟩
        unfold topHolds at hh
        cases hsj : tj.stack with
        | nil => rw [hsj] at hh; cases hh
        | cons frj restj =>
          rw [hsj] at hh
          simp only at hh
          have hhold : holds frj.pc = true := by
            cases hx : holds frj.pc with
            | true => rfl
            | false => rw [hx] at hh; simp at hh
          have : wantsLock frj.pc = false := by
            cases hp : frj.pc <;> simp_all [holds, wantsLock]
          simp [enabled, hsj, this]
    · exact ⟨i, t, ht, by simp [enabled, hst, hw]⟩

/-- a thread with an empty stack has its result (finished = returned) -/
theorem C12_nested_finished_has_result (F : Funs K V) (s : Sys K V) (h : Good F s) (i : Nat) (t : Thread K V)
    (ht : s.threads[i]? = some t) (hst : t.stack = []) : ∃ v, t.result = some v ∧ v = F.val t.root.1 t.root.2 := by
  have hT := h.threadsOk i t ht
  have := hT.fin hst
  cases hr : t.result with
  | none => rw [hr] at this; cases this
  | some v => exact ⟨v, rfl, hT.result v hr⟩


/-! ### progress: every enabled step strictly decreases a rank -/

def frameRank (F : Funs K V) (fr : Frame K V) : Nat :=
  match fr.pc with
  | .start => F.cost fr.c fr.k
  | .locked1 => F.cost fr.c fr.k - 1
  | .body todo _ => 3 + (todo.map (fun p => F.cost p.1 p.2 + 1)).sum
  | .computed _ => 2
  | .locked2 _ => 1

def threadRank (F : Funs K V) (t : Thread K V) : Nat := (t.stack.map (frameRank F)).sum

def totalRank (F : Funs K V) (s : Sys K V) : Nat := (s.threads.map (threadRank F)).sum

theorem cost_ge (F : Funs K V) (c : Nat) (k : K) : 6 ≤ F.cost c k := by rw [F.cost_eq]; omega

/-- handing a value to the caller does not change the caller's rank -/
theorem threadRank_deliver (F : Funs K V) (v : V) (rest : List (Frame K V)) (t : Thread K V) :
    threadRank F (deliver v rest t) = (rest.map (frameRank F)).sum := by
  unfold deliver threadRank
  cases rest with
  | nil => rfl
  | cons p ps =>
    simp only
    cases hp : p.pc <;> simp [frameRank, hp]

/-- **C12 (nested, progress)** — every enabled step strictly decreases the total rank, which is finite
    (`cost` of the outermost calls): every maximal schedule is finite – no livelock either -/
theorem C12_nested_step_decreases (F : Funs K V) (ev : Nat → Evict K V) (s : Sys K V) (i : Nat) (t : Thread K V)
    (ht : s.threads[i]? = some t) (hen : enabled s.locks t = true) :
    totalRank F (stepThread F ev s i) < totalRank F s := by
  have hilt : i < s.threads.length := (List.getElem?_eq_some_iff.mp ht).1
  have hget : s.threads[i] = t := (List.getElem?_eq_some_iff.mp ht).2
  have key : ∀ t' : Thread K V, threadRank F t' < threadRank F t →
      ((s.threads.set i t').map (threadRank F)).sum < (s.threads.map (threadRank F)).sum := by
    intro t' hlt
    rw [List.map_set]
    apply sum_set_lt (by simpa using hilt)
    simp only [List.getElem_map, hget]; exact hlt
  unfold stepThread
  simp only [ht]
  cases hst : t.stack with
  | nil => simp [enabled, hst] at hen
  | cons fr rest =>
    simp only
    have hrank : threadRank F t = frameRank F fr + (rest.map (frameRank F)).sum := by
      unfold threadRank; rw [hst]; simp
    have hc6 := cost_ge F fr.c fr.k
    cases hpc : fr.pc with
    | start =>
      have hfree : (s.locks fr.c).isNone = true := by simpa [enabled, hst, wantsLock, hpc] using hen
      simp only [hfree, ↓reduceIte]
      apply key
      rw [hrank]; simp only [threadRank, List.map_cons, List.sum_cons, frameRank, hpc]; omega
    | locked1 =>
      simp only
      cases cacheGet (s.caches fr.c) fr.k with
      | some v =>
        simp only
        apply key
        rw [threadRank_deliver, hrank]; simp only [frameRank, hpc]; omega
      | none =>
        simp only
        apply key
        rw [hrank]; simp only [threadRank, List.map_cons, List.sum_cons, frameRank, hpc]
        rw [F.cost_eq]; omega
    | body todo acc =>
      cases todo with
      | nil =>
        simp only
        apply key
        rw [hrank]; simp only [threadRank, List.map_cons, List.sum_cons, frameRank, hpc, List.map_nil, List.sum_nil]; omega
      | cons call todo =>
        simp only
        apply key
        rw [hrank]
        simp only [threadRank, List.map_cons, List.sum_cons, frameRank, hpc]
        omega
    | computed v =>
      have hfree : (s.locks fr.c).isNone = true := by simpa [enabled, hst, wantsLock, hpc] using hen
      simp only [hfree, ↓reduceIte]
      apply key
      rw [hrank]; simp only [threadRank, List.map_cons, List.sum_cons, frameRank, hpc]; omega
    | locked2 v =>
      simp only
      apply key
      rw [threadRank_deliver, hrank]; simp only [frameRank, hpc]; omega

/-! ### non-vacuity: the shape of the crate (a text-level cache over a per-character cache) is an instance -/

theorem sum_map_seven (k : List Nat) : (k.map (fun _ => 7)).sum = 7 * k.length := by
  induction k with
  | nil => rfl
  | cons x xs ih => simp only [List.map_cons, List.sum_cons, List.length_cons, ih]; omega

/-- cache 0: per-character classification (no nested calls); cache 1: a text, whose body classifies every
    character through cache 0 and sums; keys are code-point lists -/
def demoFuns (g : Nat → Nat) : Funs (List Nat) Nat where
  inner c k := if c = 1 then k.map (fun ch => (0, [ch])) else []
  combine c k rs := if c = 1 then rs.sum else g (k.headD 0)
  val c k := if c = 1 then (k.map g).sum else g (k.headD 0)
  val_eq c k := by
    by_cases hc : c = 1
    · simp [hc, List.map_map, Function.comp_def]
    · simp [hc]
  cost c k := if c = 1 then 6 + 7 * k.length else 6
  cost_eq c k := by
    by_cases hc : c = 1
    · simp only [hc, ↓reduceIte, List.map_map, Function.comp_def]
      have : (k.map (fun ch : Nat => (if (0 : Nat) = 1 then 6 + 7 * [ch].length else 6) + 1)) = k.map (fun _ => 7) := by
        apply List.map_congr_left; intro ch _; simp
      rw [this, sum_map_seven]
    · simp [hc]

/-- two threads classifying overlapping texts, interleaved step by step, both end with their own value -/
example :
    let s := runSchedule (demoFuns (· * 2)) (fun _ => ⟨id, fun _ _ h => h⟩)
      ((List.range 60).flatMap (fun _ => [0, 1])) (initSys (fun _ => []) [(1, [3, 4]), (1, [4, 5])])
    s.threads.map (·.result) = [some 14, some 18] := by decide +kernel

end Nested
end Charset

namespace Charset
open Nested

/-- **T2 obligation for the nested model** — which memoised functions the body of each memoised function
    can reach (through plain functions; extracted from the current source, same-named functions merged, so an
    over-approximation) is the reviewed graph … -/
theorem C12_cached_calls_covered : (Inv.cachedCalls == Covered.cachedCalls) = true := by decide +kernel

/-- a ranking of the memoised functions under which every nested memoised call goes strictly down -/
def cachedLevel (n : Name) : Nat :=
  if n = nameOfStr "new_mess_detector_character" then 0 else 1

def cachedCallsAcyclicB : Bool :=
  Covered.cachedCalls.all (fun e => e.2.all (fun callee => decide (cachedLevel callee < cachedLevel e.1)))

/-- … and that graph is acyclic: the text-level caches (`mess_ratio`, `coherence_ratio`, `encoding_languages`)
    reach only the per-character cache, which reaches none.  This is what makes the recursion equations of
    `Nested.Funs` (`val_eq`, `cost_eq`) solvable, i.e. the nested model's hypotheses satisfiable for the crate. -/
theorem C12_cached_calls_acyclic : cachedCallsAcyclicB = true := by decide +kernel

example : Covered.cachedCalls.length = 4 := by decide +kernel

end Charset
