/-
  C11 for nested memoised calls: a *history* of calls, each run to completion on the caches the previous
  ones left behind (several caches, nested bodies, arbitrary eviction), returns for every call exactly the
  value the call has on empty caches.  Derived from the nested interleaving model with a single thread.
-/
import CharsetProof.Props.C12b
set_option linter.unusedSectionVars false
namespace Charset
namespace Nested
variable {K V : Type} [DecidableEq K]

/-- let the only thread step `n` times -/
def runSolo (F : Funs K V) (ev : Nat → Evict K V) : Nat → Sys K V → Sys K V
  | 0, s => s
  | n + 1, s => runSolo F ev n (stepThread F ev s 0)

theorem stepThread_length (F : Funs K V) (ev : Nat → Evict K V) (s : Sys K V) (i : Nat) :
    (stepThread F ev s i).threads.length = s.threads.length := by
  unfold stepThread
  cases s.threads[i]? with
  | none => rfl
  | some t =>
    simp only
    cases t.stack with
    | nil => rfl
    | cons fr rest =>
      simp only
      cases fr.pc with
      | start => simp only; split <;> simp
      | locked1 => simp only; split <;> simp
      | body todo acc => cases todo <;> simp
      | computed v => simp only; split <;> simp
      | locked2 v => simp

theorem frameRank_pos (F : Funs K V) (fr : Frame K V) : 1 ≤ frameRank F fr := by
  unfold frameRank
  have := cost_ge F fr.c fr.k
  cases fr.pc <;> simp <;> omega

/-- a lone unfinished thread is always enabled: the only possible holder of a mutex is itself, and it never
    waits for a mutex while holding one -/
theorem solo_enabled {F : Funs K V} {s : Sys K V} (h : Good F s) {t : Thread K V} (hs : s.threads = [t])
    (hne : t.stack ≠ []) : enabled s.locks t = true := by
  have ht : s.threads[0]? = some t := by rw [hs]; rfl
  obtain ⟨j, tj, htj, hen⟩ := C12_nested_no_deadlock F s h ⟨0, t, ht, hne⟩
  have hj : j = 0 := by
    rw [hs] at htj
    cases j with
    | zero => rfl
    | succ n => simp at htj
  subst hj
  rw [ht] at htj; cases htj
  exact hen

/-- a lone thread finishes within `totalRank` steps -/
theorem solo_finishes (F : Funs K V) (ev : Nat → Evict K V) : ∀ (n : Nat) (s : Sys K V), Good F s →
    s.threads.length = 1 → totalRank F s ≤ n →
    ∃ t', (runSolo F ev n s).threads = [t'] ∧ t'.stack = [] ∧ Good F (runSolo F ev n s)
  | 0, s, hg, hlen, hrank => by
    obtain ⟨t, ht⟩ : ∃ t, s.threads = [t] := by
      cases hs : s.threads with
      | nil => rw [hs] at hlen; cases hlen
      | cons a as => cases as with
        | nil => exact ⟨a, rfl⟩
        | cons b bs => rw [hs] at hlen; simp at hlen
    refine ⟨t, ht, ?_, hg⟩
    unfold totalRank at hrank
    rw [ht] at hrank
    simp only [List.map_cons, List.map_nil, List.sum_cons, List.sum_nil, Nat.add_zero, Nat.le_zero_eq] at hrank
    unfold threadRank at hrank
    cases hst : t.stack with
    | nil => rfl
    | cons fr rest =>
      rw [hst] at hrank
      simp only [List.map_cons, List.sum_cons] at hrank
      have := frameRank_pos F fr
      omega
  | n + 1, s, hg, hlen, hrank => by
    obtain ⟨t, ht⟩ : ∃ t, s.threads = [t] := by
      cases hs : s.threads with
      | nil => rw [hs] at hlen; cases hlen
      | cons a as => cases as with
        | nil => exact ⟨a, rfl⟩
        | cons b bs => rw [hs] at hlen; simp at hlen
    have ht0 : s.threads[0]? = some t := by rw [ht]; rfl
    simp only [runSolo]
    have hg' := good_step F ev s 0 hg
    have hlen' : (stepThread F ev s 0).threads.length = 1 := by rw [stepThread_length]; exact hlen
    by_cases hne : t.stack = []
    · -- already finished: stepping changes nothing
      have hsame : stepThread F ev s 0 = s := by
        unfold stepThread; simp only [ht0, hne]
      rw [hsame]
      exact solo_finishes F ev n s hg hlen (by
        simp [totalRank, threadRank, ht, hne])
    · have hen := solo_enabled hg ht hne
      have hdec := C12_nested_step_decreases F ev s 0 t ht0 hen
      exact solo_finishes F ev n _ hg' hlen' (by omega)

/-- one call run to completion on given caches: its result and the caches it leaves -/
def callSolo (F : Funs K V) (ev : Nat → Evict K V) (caches : Nat → CacheEntries K V) (call : Call K) :
    Option V × (Nat → CacheEntries K V) :=
  let s := runSolo F ev (F.cost call.1 call.2) (initSys caches [call])
  ((s.threads.head?.bind (·.result)), s.caches)

/-- a history of calls, each on the caches left by the previous ones -/
def runHistory (F : Funs K V) (ev : Nat → Evict K V) : List (Call K) → (Nat → CacheEntries K V) → List (Option V)
  | [], _ => []
  | call :: rest, caches =>
    let r := callSolo F ev caches call
    r.1 :: runHistory F ev rest r.2

theorem initSys_rank (F : Funs K V) (caches : Nat → CacheEntries K V) (call : Call K) :
    totalRank F (initSys caches [call]) = F.cost call.1 call.2 := by
  simp [totalRank, threadRank, initSys, frameRank]

theorem callSolo_correct (F : Funs K V) (ev : Nat → Evict K V) (caches : Nat → CacheEntries K V)
    (hc : ∀ c, CacheOk (F.val c) (caches c)) (call : Call K) :
    (callSolo F ev caches call).1 = some (F.val call.1 call.2) ∧
    ∀ c, CacheOk (F.val c) ((callSolo F ev caches call).2 c) := by
  have hg := good_init F caches hc [call]
  obtain ⟨t', hthreads, hstack, hgood⟩ := solo_finishes F ev (F.cost call.1 call.2) (initSys caches [call]) hg
    (by simp [initSys]) (by rw [initSys_rank]; exact Nat.le_refl _)
  unfold callSolo
  simp only [hthreads, List.head?_cons, Option.bind_some]
  have ht' : (runSolo F ev (F.cost call.1 call.2) (initSys caches [call])).threads[0]? = some t' := by
    rw [hthreads]; rfl
  obtain ⟨v, hv, hval⟩ := C12_nested_finished_has_result F _ hgood 0 t' ht' hstack
  -- the thread's root is the call it was started with: steps never change `root`
  have hroot : t'.root = call := by
    have key : ∀ (n : Nat) (s : Sys K V), (∀ t ∈ s.threads, t.root = call) →
        ∀ t ∈ (runSolo F ev n s).threads, t.root = call := by
      intro n
      induction n with
      | zero => intro s h; exact h
      | succ n ih =>
        intro s h
        simp only [runSolo]
        apply ih
        intro t ht
        unfold stepThread at ht
        cases h0 : s.threads[0]? with
        | none => simp only [h0] at ht; exact h t ht
        | some t0 =>
          have hr0 : t0.root = call := h t0 (List.mem_of_getElem? h0)
          simp only [h0] at ht
          cases hst : t0.stack with
          | nil => simp only [hst] at ht; exact h t ht
          | cons fr rest =>
            simp only [hst] at ht
            have hset : ∀ (l : List (Thread K V)) (x : Thread K V),
                t ∈ l.set 0 x → x.root = call → (∀ y ∈ l, y.root = call) → t.root = call := by
              intro l x hm hx hl
              rcases List.mem_or_eq_of_mem_set hm with h1 | h1
              · exact hl t h1
              · rw [h1]; exact hx
            have hdel : ∀ (v : V) (rest : List (Frame K V)), (deliver v rest t0).root = call := by
              intro v rest
              unfold deliver
              cases rest with
              | nil => exact hr0
              | cons p ps => simp only; cases p.pc <;> exact hr0
            cases hpc : fr.pc with
            | start =>
              simp only [hpc] at ht
              split at ht
              · exact hset _ _ ht hr0 h
              · exact h t ht
            | locked1 =>
              simp only [hpc] at ht
              split at ht
              · exact hset _ _ ht (hdel _ _) h
              · exact hset _ _ ht hr0 h
            | body todo acc =>
              cases todo with
              | nil => simp only [hpc] at ht; exact hset _ _ ht hr0 h
              | cons cl todo => simp only [hpc] at ht; exact hset _ _ ht hr0 h
            | computed v =>
              simp only [hpc] at ht
              split at ht
              · exact hset _ _ ht hr0 h
              · exact h t ht
            | locked2 v =>
              simp only [hpc] at ht
              exact hset _ _ ht (hdel _ _) h
    apply key (F.cost call.1 call.2) (initSys caches [call])
    · intro t ht; simp [initSys] at ht; rw [ht]
    · rw [hthreads]; exact List.mem_cons_self
  rw [hroot] at hval
  exact ⟨by rw [hv, hval], hgood.cacheOk⟩

/-- **C11 (nested memoisation is unobservable)**: in any history of calls over several caches with nested
    memoised bodies and arbitrary eviction, started from any correct cache contents (in particular cold),
    every call returns exactly its own value – the one it returns as the first call of a fresh process. -/
theorem C11_nested_history (F : Funs K V) (ev : Nat → Evict K V) :
    ∀ (hist : List (Call K)) (caches : Nat → CacheEntries K V), (∀ c, CacheOk (F.val c) (caches c)) →
      runHistory F ev hist caches = hist.map (fun call => some (F.val call.1 call.2))
  | [], _, _ => rfl
  | call :: rest, caches, hc => by
    obtain ⟨h1, h2⟩ := callSolo_correct F ev caches hc call
    simp only [runHistory, List.map_cons, h1]
    rw [C11_nested_history F ev rest _ h2]

/-- non-vacuity: a warm history on the two-level demo instance -/
example : runHistory (demoFuns (· + 1)) (fun _ => ⟨id, fun _ _ h => h⟩) [(1, [1, 2]), (0, [2]), (1, [2, 1])] (fun _ => []) =
    [some 5, some 3, some 5] := by decide +kernel

end Nested
end Charset
