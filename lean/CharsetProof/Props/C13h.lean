/-
  C13 for the fully modelled world, every size: the chaos of every regular candidate of an input that fits the window is
  `mess_ratio` of its whole decoded text – also on the lazy path (> 1,000,000 bytes, single-byte code page).
-/
import CharsetProof.Props.C13f
import CharsetProof.Props.C13g
import CharsetProof.Props.Full
set_option linter.unusedSectionVars false
namespace Charset

theorem nonEmpty_full (menv : Md.MdEnv) (cenv : Coh.CohEnv) (o : Oracle) :
    ∀ e x t, e ∈ tablesNow.supported → tablesNow.isMultiByte e = false →
      (worldFull menv cenv o).decode e x = .ok (some t) → x ≠ [] → t ≠ [] :=
  nonEmpty_now o

/-- **C13, fully modelled, every size**: chaos = mess_ratio(text, threshold), exactly -/
theorem C13_chaos_is_mess_ratio_full_all_sizes (menv : Md.MdEnv) (cenv : Coh.CohEnv) (o : Oracle)
    {b : Bytes} {s : Settings} {incl excl : List Name}
    (hincl : canonList ianaNow s.incl = .ok incl) (hexcl : canonList ianaNow s.excl = .ok excl)
    (hfit : Fits b s) (hthr : s.thr.isNaN = false)
    {ms : List (Match Name Name)} (hb : b ≠ [])
    (h : fromBytes (worldFull menv cenv o) tablesNow sortMatches b s = .ok (.ok ms)) :
    ∀ m ∈ ms, ∀ c ∈ m.entries, Fl.ge c.chaos s.thr = false →
      ∃ t, c.text = some t ∧ c.chaos = (if t.isEmpty then Fl.zero else Md.messRatio menv t s.thr) := by
  intro m hm c hc hge
  obtain ⟨t, ht, hch⟩ := C13_chaos_of_text_all_sizes (W := worldFull menv cenv o) sortMatches_perm marksMultiByte_now
    (lazyLaws_full menv cenv o) (hchars_full menv cenv o) (nonEmpty_full menv cenv o) hincl hexcl hfit hthr hb h m hm c hc hge
  exact ⟨t, ht, chaosOfText_full_eq menv cenv o hthr hge hch⟩

end Charset
