/-
  One statement for the fully modelled detection (every decoder, the mess detector, the coherence detector,
  the merge and the language table are Lean definitions; the only parameters left are the two Unicode
  environments): for every non-empty input, all settings with a usable number of steps and a threshold that
  is a number, the model returns – never faulting, never asking the implementation – either the documented
  error or a list of matches for which the clauses of C01, C04, C05, C07 and C10 proved elsewhere hold at once.
  Nothing here is new mathematics; the point is that no hypothesis about the world is left anywhere.
-/
import CharsetProof.Props.C02c
import CharsetProof.Props.C01
import CharsetProof.Props.C05
import CharsetProof.Props.C07
import CharsetProof.Props.C10
import CharsetProof.Props.C10e
set_option linter.unusedSectionVars false
namespace Charset

/-- the lazy-path laws speak about the decoders only, which the fully modelled world shares with `worldNow` -/
theorem lazyLaws_full (menv : Md.MdEnv) (cenv : Coh.CohEnv) (o : Oracle) :
    LazyLaws (worldFull menv cenv o) tablesNow :=
  ⟨(lazyLaws_now o).chunkEq, (lazyLaws_now o).hom, (lazyLaws_now o).noFeff⟩

/-- a list of matches is only ever returned after both filter lists were canonicalised -/
theorem fromBytes_ok_canon {E L : Type} [DecidableEq E] {W : World E L} {T : Tables E} {sort : Sorter E L}
    {b : Bytes} {s : Settings} {ms : List (Match E L)} (h : fromBytes W T sort b s = .ok (.ok ms)) :
    ∃ incl excl, canonList T.ianaName s.incl = .ok incl ∧ canonList T.ianaName s.excl = .ok excl := by
  unfold fromBytes at h
  cases hi : canonList T.ianaName s.incl with
  | error n => simp [hi] at h
  | ok incl =>
    cases he : canonList T.ianaName s.excl with
    | error n => simp [hi, he] at h
    | ok excl => exact ⟨incl, excl, rfl, rfl⟩

/-- **Detection, fully modelled, no hypothesis about the world** -/
theorem detection_full (menv : Md.MdEnv) (cenv : Coh.CohEnv) (o : Oracle) (b : Bytes) (s : Settings)
    (hb : b ≠ []) (hs : 1 ≤ s.steps) (hs2 : s.steps < 2 ^ 62) (hlen : b.length + 1 < 2 ^ 64)
    (hthr : s.thr.isNaN = false) :
    -- the documented error: an entry of a filter list that names no known encoding
    (∃ e, fromBytes (worldFull menv cenv o) tablesNow sortMatches b s = .ok (.error e) ∧
      ((∃ n, e = .badInclude n ∧ n ∈ s.incl ∧ tablesNow.ianaName n = none) ∨
       (∃ n, e = .badExclude n ∧ n ∈ s.excl ∧ tablesNow.ianaName n = none))) ∨
    -- or matches, and then
    (∃ ms incl excl, fromBytes (worldFull menv cenv o) tablesNow sortMatches b s = .ok (.ok ms) ∧
      canonList ianaNow s.incl = .ok incl ∧ canonList ianaNow s.excl = .ok excl ∧
      -- C01: every candidate hands back the input and exposes its strict decode
      (∀ m ∈ ms, ∀ c ∈ m.entries, c.raw = b ∧
        ∃ t, (worldFull menv cenv o).decode c.enc (stripMark tablesNow b c.enc) = .ok (some t) ∧ c.text = some t) ∧
      -- C05: every candidate passes the filters
      (∀ m ∈ ms, ∀ e ∈ m.cands, Filtered incl excl e) ∧
      -- C10: no encoding is named twice, every name is a supported one
      ((allCands ms).Nodup ∧ ∀ e ∈ allCands ms, e ∈ Gen.supported) ∧
      -- C07: UTF-16 only with its mark
      (∀ m ∈ ms, ∀ c ∈ m.entries, (c.enc = nUTF16LE ∨ c.enc = nUTF16BE) →
        ∃ mk, sigOf tablesNow.marks b = some (c.enc, mk)) ∧
      -- C04: chaos is a finite number in [0, threshold), or the result is the single last-resort candidate
      ((∀ m ∈ ms, ∀ c ∈ m.entries,
          0 ≤ c.chaos.key ∧ c.chaos.isNaN = false ∧ c.chaos.isFinite = true ∧ Fl.lt c.chaos s.thr = true) ∨
       (∃ fb, ms = [fb] ∧ fb.subs = [] ∧ fb.chaos = s.thr ∧ s.fallback = true ∧ fb.enc ∈ hintsOf tablesNow b s))) := by
  obtain ⟨r, hr⟩ := C02_full menv cenv o b s hs hlen
  cases r with
  | error e => exact Or.inl ⟨e, hr, C02_only_documented_error hr⟩
  | ok ms =>
    obtain ⟨incl, excl, hincl, hexcl⟩ := fromBytes_ok_canon hr
    refine Or.inr ⟨ms, incl, excl, hr, hincl, hexcl, ?_, ?_, ?_, ?_, ?_⟩
    · exact C01_decodes sortMatches_perm marksMultiByte_now (lazyLaws_full menv cenv o) hincl hexcl hb hr
    · exact C05_filters sorterNow_perm hincl hexcl hb hr
    · exact C10_nodup sortMatches_perm supported_nodup_now' hb hr
    · intro m hm c hc
      exact ((C07_bom sortMatches_perm marksMultiByte_now hthr hincl hexcl hb hr) m hm c hc).2.2
    · exact C04_chaos_range_full menv cenv o hs2 hthr hincl hexcl hb hr

end Charset

namespace Charset
/-- the premises are satisfiable: one byte, the library's default settings (threshold 0.2, language threshold 0.1) -/
example :
    let s : Settings := ⟨5, 512, F32.ofBits 1045220557, F32.ofBits 1036831949, [], [], true, true, false⟩
    ([0x41] : Bytes) ≠ [] ∧ 1 ≤ s.steps ∧ s.steps < 2 ^ 62 ∧ ([0x41] : Bytes).length + 1 < 2 ^ 64 ∧ s.thr.isNaN = false := by
  decide +kernel
end Charset
