/-
  C10 / C19, language lists of the current tree with `merge_coherence_ratios` inside the model
  (`worldNow.merge = mergeModel`): no repeats, only target languages for a tied encoding, ordered by
  non-increasing score – without assumptions about the merge step.
-/
import CharsetProof.Props.C10
import CharsetProof.Lemmas.Merge
import CharsetProof.Lemmas.EntryFacts
set_option linter.unusedSectionVars false
namespace Charset

theorem worldNow_merge (o : Oracle) (xs : List (List (Name × F32))) :
    (worldNow o).merge xs = .ok (mergeModel xs) := rfl

/-- **C10 (language list has no repeats), current tree** — no hypothesis about the merge step -/
theorem C10_languages_current (o : Oracle) {b : Bytes} {s : Settings} {incl excl : List Name}
    (hincl : canonList ianaNow s.incl = .ok incl) (hexcl : canonList ianaNow s.excl = .ok excl)
    {ms : List (Match Name Name)} (hb : b ≠ [])
    (h : fromBytes (worldNow o) tablesNow sortMatches b s = .ok (.ok ms)) :
    ∀ m ∈ ms, m.languages.Nodup :=
  C10_languages sortMatches_perm
    (fun xs r hr => by rw [worldNow_merge] at hr; cases hr; exact mergeModel_nodup xs) hincl hexcl hb h

variable {E L : Type} [DecidableEq E]

theorem cohAll_mem {W : World E L} {thr : F32} {langs : List L} (ts : List Text) {rs : List (List (L × F32))}
    (h : cohAll W thr langs ts = .ok rs) : ∀ r ∈ rs, ∃ t, W.coh t thr langs = .ok (some r) := by
  induction ts generalizing rs with
  | nil => simp only [cohAll] at h; cases h; simp
  | cons t ts ih =>
    simp only [cohAll] at h
    split at h
    · cases h
    · rename_i r0 hr0
      split at h
      · cases h
      · rename_i rs0 hrs0
        cases h
        intro r hr
        cases r0 with
        | none => exact ih hrs0 r (by simpa using hr)
        | some x =>
          simp only [List.mem_cons] at hr
          rcases hr with rfl | hr
          · exact ⟨t, hr0⟩
          · exact ih hrs0 r hr

/-- the law of `coherence_ratio` with an include list (cd.rs:221-225: a non-empty list other than
    `[Unknown]` replaces the candidate languages): only listed languages are scored -/
def CohRespectsInclude (W : World E L) (unknown : L) : Prop :=
  ∀ t thr langs r, W.coh t thr langs = .ok (some r) → langs ≠ [] → langs ≠ [unknown] → ∀ p ∈ r, p.1 ∈ langs

/-- **C10 (tied language)** — in the current tree, if `coherence_ratio` respects its include list, every
    candidate whose encoding is tied to one language (`mb_encoding_languages`) lists no other language -/
theorem C10_tied_language (o : Oracle) (hcoh : CohRespectsInclude (worldNow o) nUnknown)
    {b : Bytes} {s : Settings} {incl excl : List Name}
    (hincl : canonList ianaNow s.incl = .ok incl) (hexcl : canonList ianaNow s.excl = .ok excl)
    {ms : List (Match Name Name)} (hb : b ≠ [])
    (h : fromBytes (worldNow o) tablesNow sortMatches b s = .ok (.ok ms))
    {m : Match Name Name} (hm : m ∈ ms) {c : Sub Name Name} (hc : c ∈ m.entries) {lang : Name}
    (htied : lookupName Gen.targetLanguages c.enc = some [lang]) (hlang : lang ≠ nUnknown) :
    ∀ l ∈ c.cohs.map (·.1), l = lang := by
  rcases fromBytes_facts sortMatches_perm hincl hexcl hb h with hall | ⟨fb, rfl, hfb, hsubs⟩
  · have f := Match.allEntries_iff.mp (hall m hm) c hc
    obtain ⟨p, acc, _, _, _, _, _, _, _, _, cdl, hcds, hmerge⟩ := f.chunksFact
    rw [worldNow_merge] at hmerge
    have hcohs : mergeModel cdl = c.cohs := Except.ok.inj hmerge
    intro l hl
    rw [← hcohs] at hl
    obtain ⟨r, hr, hlr⟩ := (mergeModel_mem cdl l).mp hl
    unfold cdsOf at hcds
    split at hcds
    · cases hcds; simp at hr
    · have htar : (worldNow o).target c.enc = .ok [lang] := by
        show (match lookupName Gen.targetLanguages c.enc with | some l => Except.ok l | none => _) = _
        rw [htied]
      rw [htar] at hcds
      obtain ⟨t, ht⟩ := cohAll_mem _ hcds r hr
      obtain ⟨q, hq, rfl⟩ := List.mem_map.mp hlr
      have := hcoh t _ _ r ht (by simp) (by simpa using hlang) q hq
      simpa using this
  · simp only [List.mem_singleton] at hm
    subst hm
    have f := Match.allEntries_iff.mp hfb c hc
    intro l hl
    rw [f.cohs] at hl
    simp at hl

/-- **C19 (order of the reported list), current tree** — every candidate's language list is ordered by
    non-increasing score, for every number of chunks and languages -/
theorem C19_result_sorted_current (o : Oracle) {b : Bytes} {s : Settings} {incl excl : List Name}
    (hincl : canonList ianaNow s.incl = .ok incl) (hexcl : canonList ianaNow s.excl = .ok excl)
    {ms : List (Match Name Name)} (hb : b ≠ [])
    (h : fromBytes (worldNow o) tablesNow sortMatches b s = .ok (.ok ms)) :
    ∀ m ∈ ms, ∀ c ∈ m.entries, c.cohs.Pairwise (fun a b => b.2.key ≤ a.2.key) := by
  intro m hm c hc
  rcases fromBytes_facts sortMatches_perm hincl hexcl hb h with hall | ⟨fb, rfl, hfb, hsubs⟩
  · have f := Match.allEntries_iff.mp (hall m hm) c hc
    obtain ⟨cdl, hmerge⟩ := f.cohMerged
    rw [worldNow_merge] at hmerge
    have hcohs : mergeModel cdl = c.cohs := Except.ok.inj hmerge
    rw [← hcohs]
    exact mergeModel_sorted cdl
  · simp only [List.mem_singleton] at hm
    subst hm
    have f := Match.allEntries_iff.mp hfb c hc
    rw [f.cohs]
    exact List.Pairwise.nil

/-- tie T1: the encodings the property names are tied to exactly that language in the dumped table -/
theorem C10_tied_table_now :
    (lookupName Gen.targetLanguages (nameOfStr "euc-kr") == some [nameOfStr "Korean"] &&
     lookupName Gen.targetLanguages (nameOfStr "big5") == some [nameOfStr "Chinese"] &&
     lookupName Gen.targetLanguages (nameOfStr "gbk") == some [nameOfStr "Chinese"] &&
     lookupName Gen.targetLanguages (nameOfStr "gb18030") == some [nameOfStr "Chinese"] &&
     lookupName Gen.targetLanguages (nameOfStr "euc-jp") == some [nameOfStr "Japanese"] &&
     lookupName Gen.targetLanguages (nameOfStr "shift_jis") == some [nameOfStr "Japanese"] &&
     lookupName Gen.targetLanguages (nameOfStr "iso-2022-jp") == some [nameOfStr "Japanese"]) = true := by
  decide +kernel

end Charset
