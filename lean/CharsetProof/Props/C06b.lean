/-
  C06 — the declaration scanner (`any_specified_encoding`): what counts as "declared in the first 4 KiB".
-/
import CharsetProof.Model.Concrete
set_option linter.unusedSectionVars false
namespace Charset

/-- whatever the scanner returns is a canonical name the label canonicaliser produced for some capture -/
theorem scanDeclared_is_label (iana : Name → Option Name) : ∀ (fuel : Nat) (s : List Nat) (e : Name),
    scanDeclared iana fuel s = some e → ∃ cap, iana cap = some e
  | 0, _, _, h => by simp [scanDeclared] at h
  | fuel + 1, s, e, h => by
    unfold scanDeclared at h
    cases s with
    | nil => simp at h
    | cons c tl =>
      simp only at h
      cases hm : matchHere (c :: tl) with
      | none => rw [hm] at h; exact scanDeclared_is_label iana fuel tl e h
      | some r =>
        obtain ⟨cap, rest⟩ := r
        rw [hm] at h
        simp only at h
        cases hi : iana cap with
        | some e' => rw [hi] at h; cases h; exact ⟨cap, hi⟩
        | none => rw [hi] at h; exact scanDeclared_is_label iana fuel rest e h

/-- **C06 (a declaration is a known label)**: a declared encoding is always the canonical form of a label
    that really occurs in the content; nothing is ever "declared" that the canonicaliser does not know -/
theorem C06_declared_is_label (iana : Name → Option Name) (zone : Nat) (b : Bytes) (e : Name)
    (h : declaredOf iana zone b = some e) : ∃ cap, iana cap = some e :=
  scanDeclared_is_label iana _ _ e h

/-- **C06 (only the first `zone` bytes count)**: content after the search zone (4096 bytes) never
    influences what is declared -/
theorem C06_declared_zone (iana : Name → Option Name) (zone : Nat) (x y : Bytes) (hx : zone ≤ x.length) :
    declaredOf iana zone (x ++ y) = declaredOf iana zone x := by
  unfold declaredOf
  rw [List.take_append_of_le_length hx]

/-- the scanner looks at ASCII bytes only: bytes ≥ 0x80 in the zone are skipped, not treated as separators -/
theorem C06_declared_ascii_only (iana : Name → Option Name) (zone : Nat) (b : Bytes) :
    declaredOf iana zone b = declaredOf iana zone ((b.take zone).filter (· < 128)) := by
  unfold declaredOf
  have h1 : ((b.take zone).filter (· < 128)).take zone = (b.take zone).filter (· < 128) := by
    apply List.take_of_length_le
    exact Nat.le_trans (List.length_filter_le _ _) (by simp [List.length_take]; omega)
  rw [h1, List.filter_filter]
  simp

/-- without one of the letters every keyword needs, nothing is declared -/
theorem matchHere_none_of_head {c : Nat} {tl : List Nat} (hc : c ≠ 101 ∧ c ≠ 99) : matchHere (c :: tl) = none := by
  unfold matchHere kwEncoding kwCharset kwCoding
  have h1 : ¬ (101 = c) := fun h => hc.1 h.symm
  have h2 : ¬ (99 = c) := fun h => hc.2 h.symm
  simp [List.isPrefixOf, h1, h2]

theorem scanDeclared_none_without_ce (iana : Name → Option Name) : ∀ (fuel : Nat) (s : List Nat),
    (∀ c ∈ s, c ≠ 101 ∧ c ≠ 99) → scanDeclared iana fuel s = none
  | 0, _, _ => rfl
  | fuel + 1, [], _ => rfl
  | fuel + 1, c :: tl, h => by
    unfold scanDeclared
    simp only [matchHere_none_of_head (h c List.mem_cons_self)]
    exact scanDeclared_none_without_ce iana fuel tl (fun x hx => h x (List.mem_cons_of_mem _ hx))

/-- non-vacuity on the current tables: the three keyword forms, quoting, a label alias, the zone edge -/
example : declaredOf ianaNow 4096 (nameOfStr "<meta charset=\"utf-8\">") = some (nameOfStr "utf-8") := by decide +kernel
example : declaredOf ianaNow 4096 (nameOfStr "# -*- coding: latin1 -*-") = some (nameOfStr "windows-1252") := by decide +kernel
example : declaredOf ianaNow 4096 (nameOfStr "<?xml version='1.0' encoding='KOI8-R'?>") = some (nameOfStr "koi8-r") := by
  decide +kernel
example : declaredOf ianaNow 4096 (nameOfStr "charset=no-such-label then charset=big5") = some (nameOfStr "big5") := by
  decide +kernel
example : declaredOf ianaNow 10 (nameOfStr "0123456789charset=utf-8") = none := by decide +kernel

end Charset
