/-
  C01, the `ascii` clause – what *is* true of the pinned tree.  The clause "a candidate named ascii implies
  every input byte < 0x80" fails when non-ASCII bytes lie outside the sampled chunks (known finding).  When the
  input fits the analysis window there is nothing outside the sampled chunk: the single chunk is the whole
  text, `is_invalid_chunk` looks at all of it, and the clause holds – for every size, lazy path included.
-/
import CharsetProof.Props.C13g
import CharsetProof.Lemmas.CharsLeNow
set_option linter.unusedSectionVars false
namespace Charset
variable {E L : Type} [DecidableEq E]

/-- the single chunk of a payload that fits the window passed the validity test (`is_invalid_chunk`) -/
theorem probeChunks_fit_valid {W : World E L} {T : Tables E} {c : Ctx E} {e : E} {p : Prepared} {acc : ChunkAcc}
    {t : Text} (hsteps : c.steps = 1) (hpay : p.payload = some t) (hlen : t.length ≤ c.chunk) (hne : t ≠ [])
    (h : probeChunks W T c e p = .ok acc) (hl : acc.lazyHard = false) : validChunk T e t = some t := by
  unfold probeChunks at h
  have hseq : seqLenOf c p = t.length := by simp [seqLenOf, hpay]
  have hstart : startOffOf p = 0 := by simp [startOffOf, hpay]
  rw [hseq, hstart, hsteps] at h
  simp only [divF, Nat.succ_ne_zero, ↓reduceIte, Nat.div_one] at h
  rw [offsets_single] at h
  have hn : t.length ≠ 0 := fun h0 => hne (List.eq_nil_of_length_eq_zero h0)
  rw [if_neg hn] at h
  have hchunk : chunkAt W T c e (some t) t.length 0 = .ok (validChunk T e t) := by
    simp [chunkAt, List.take_of_length_le hlen]
  rw [hpay] at h
  simp only [chunkLoop, hchunk] at h
  cases hv : validChunk T e t with
  | none =>
    simp only [hv, Except.ok.injEq] at h
    subst h
    simp at hl
  | some ch =>
    unfold validChunk at hv
    split at hv
    · cases hv
    · cases hv; rfl

theorem probeChunks_fit_lazy_valid {W : World E L} {T : Tables E} {c : Ctx E} {e : E} {p : Prepared} {acc : ChunkAcc}
    {t : Text} (hsteps : c.steps = 1) (hchunk : c.chunk = c.b.length) (hb : c.b ≠ [])
    (hpay : p.payload = none) (hbom : p.bomHere = false)
    (hdec : W.decode e c.b = .ok (some t))
    (h : probeChunks W T c e p = .ok acc) (hl : acc.lazyHard = false) : validChunk T e t = some t := by
  unfold probeChunks at h
  have hseq : seqLenOf c p = c.b.length := by simp [seqLenOf, hpay]
  have hstart : startOffOf p = 0 := by simp [startOffOf, hbom]
  rw [hseq, hstart, hsteps] at h
  simp only [divF, Nat.succ_ne_zero, ↓reduceIte, Nat.div_one] at h
  rw [offsets_single] at h
  have hn : c.b.length ≠ 0 := fun h0 => hb (List.eq_nil_of_length_eq_zero h0)
  rw [if_neg hn, hpay] at h
  have hchunkAt : chunkAt W T c e none c.b.length 0 = .ok (validChunk T e t) := by
    simp only [chunkAt, hchunk, sliceF_whole, hdec]
  simp only [chunkLoop, hchunkAt] at h
  cases hv : validChunk T e t with
  | none =>
    simp only [hv, Except.ok.injEq] at h
    subst h
    simp at hl
  | some ch =>
    unfold validChunk at hv
    split at hv
    · cases hv
    · cases hv; rfl

theorem validChunk_ascii {T : Tables E} {t : Text} (h : validChunk T T.ascii t = some t) : isAsciiText t = true := by
  unfold validChunk at h
  split at h
  · cases h
  · rename_i hc
    cases hx : isAsciiText t with
    | true => rfl
    | false => exact absurd ⟨rfl, by simp [hx]⟩ hc

/-- **C01 (ascii clause, inputs that fit the window)** – partial: when the input is no longer than
    `steps × chunk_size`, every candidate named `ascii` (main encoding, alternative, or the fallback match) implies that every
    input byte is below 0x80.  World hypotheses: the single-byte laws of C01, one character per byte at most, and
    `hascii` – the `ascii` decoder maps bytes ≥ 0x80 to non-ASCII characters (kernel-checked for the dumped
    windows-1252 table that `ascii` resolves to: `asciiLaw_now`).  What the hypothesis `Fits` excludes is exactly
    the recorded finding (non-ASCII bytes outside the sampled chunks). -/
theorem C01_ascii_fit_partial {W : World E L} {T : Tables E} {sort : Sorter E L}
    (hperm : ∀ l, (sort l).Perm l) (hmb : ∀ em ∈ T.marks, T.isMultiByte em.1 = true) (laws : LazyLaws W T)
    (hchars : ∀ e x t, e ∈ T.supported → W.decode e x = .ok (some t) → t.length ≤ x.length)
    (hsb : T.isMultiByte T.ascii = false)
    (hascii : ∀ x t, W.decode T.ascii x = .ok (some t) → isAsciiText t = true → x.all (· < 128) = true)
    {b : Bytes} {s : Settings} {incl excl : List E}
    (hincl : canonList T.ianaName s.incl = .ok incl) (hexcl : canonList T.ianaName s.excl = .ok excl)
    (hfit : Fits b s)
    {ms : List (Match E L)} (hb : b ≠ []) (h : fromBytes W T sort b s = .ok (.ok ms)) :
    ∀ m ∈ ms, ∀ c ∈ m.entries, c.enc = T.ascii → b.all (· < 128) = true := by
  intro m hm c hc henc
  have hctx : (ctxOf T b s).steps = 1 ∧ (ctxOf T b s).chunk = b.length := by
    unfold ctxOf; simp [C13_normWindow_fit hfit]
  -- `ascii` carries no mark: the whole input is what gets decoded
  have hnb : bomHereOf (ctxOf T b s) c.enc = false := by
    cases hbh : bomHereOf (ctxOf T b s) c.enc with
    | false => rfl
    | true =>
      obtain ⟨mk, hmk⟩ := bomHere_iff.mp hbh
      have := hmb _ (sigOf_some hmk).1
      simp only at this; rw [henc, hsb] at this; cases this
  have hstrip : stripMark T b c.enc = b := by
    rw [← drop_startIdx (s := s)]
    simp [startIdxOf, hnb]
  obtain ⟨_, t, hdect, htext⟩ := C01_decodes hperm hmb laws hincl hexcl hb h m hm c hc
  rw [hstrip] at hdect
  -- regular and fallback entries alike went through a chunk analysis in which no chunk was invalid
  have hchunks : ∃ p acc, p.bomHere = bomHereOf (ctxOf T b s) c.enc ∧
      (lazyOf T (ctxOf T b s) c.enc = false → p.payload = c.text) ∧
      (lazyOf T (ctxOf T b s) c.enc = true → p.payload = none) ∧
      probeChunks W T (ctxOf T b s) c.enc p = .ok acc ∧ acc.lazyHard = false := by
    rcases fromBytes_facts hperm hincl hexcl hb h with hall | ⟨fb, rfl, hfb, _⟩
    · have f := (Match.allEntries_iff.mp (hall m hm)) c hc
      obtain ⟨p, acc, _, hp2, _, hp4, hp5, hp6, _, hp8, _⟩ := f.chunksFact
      exact ⟨p, acc, hp2, hp4, hp5, hp6, hp8⟩
    · simp only [List.mem_singleton] at hm
      subst hm
      exact ((Match.allEntries_iff.mp hfb) c hc).chunks
  obtain ⟨p, acc, hp2, hp4, hp5, hp6, hp8⟩ := hchunks
  have hsup : c.enc ∈ T.supported := by
    rcases fromBytes_facts hperm hincl hexcl hb h with hall | ⟨fb, rfl, hfb, _⟩
    · exact ((Match.allEntries_iff.mp (hall m hm)) c hc).supported
    · simp only [List.mem_singleton] at hm
      subst hm
      exact ((Match.allEntries_iff.mp hfb) c hc).supported
  have hvalid : validChunk T c.enc t = some t ∨ t = [] := by
    by_cases hte : t = []
    · exact Or.inr hte
    · left
      cases hl : lazyOf T (ctxOf T b s) c.enc with
      | false =>
        have hpay : p.payload = some t := by rw [hp4 hl, htext]
        have hlen : t.length ≤ (ctxOf T b s).chunk := by
          rw [hctx.2]; exact hchars _ _ _ hsup hdect
        exact probeChunks_fit_valid hctx.1 hpay hlen hte hp6 hp8
      | true =>
        have hbom : p.bomHere = false := by rw [hp2, hnb]
        exact probeChunks_fit_lazy_valid (c := ctxOf T b s) hctx.1 hctx.2 hb (hp5 hl) hbom hdect hp6 hp8
  rw [henc] at hdect
  rcases hvalid with hv | hte
  · rw [henc] at hv
    exact hascii b t hdect (validChunk_ascii hv)
  · subst hte
    exact hascii b [] hdect rfl

end Charset

namespace Charset

/-- a table decoder all of whose entries for bytes ≥ 0x80 are non-ASCII: ASCII text can only come from ASCII bytes -/
theorem tableStrict_ascii_bytes (tbl : List Nat) (htbl : ∀ i v, 128 ≤ i → tbl[i]? = some v → 128 ≤ v) :
    ∀ (x : Bytes) (t : Text), tableStrict tbl x = .ok t → isAsciiText t = true → x.all (· < 128) = true
  | [], _, _, _ => rfl
  | b :: bs, t, h, ha => by
    simp only [tableStrict] at h
    cases hb : tbl[b]? with
    | none => rw [hb] at h; cases h
    | some cp =>
      rw [hb] at h
      simp only at h
      split at h
      · cases h
      · cases hr : tableStrict tbl bs with
        | error k => rw [hr] at h; cases h
        | ok t' =>
          rw [hr] at h
          cases h
          unfold isAsciiText at ha
          simp only [List.all_cons, Bool.and_eq_true, decide_eq_true_eq] at ha
          have hrest := tableStrict_ascii_bytes tbl htbl bs t' hr (by unfold isAsciiText; exact ha.2)
          have hlt : b < 128 := by
            rcases Nat.lt_or_ge b 128 with h1 | h1
            · exact h1
            · have := htbl b cp h1 hb; omega
          simp [hlt, hrest]

/-- T1 obligation: in the table the name `ascii` resolves to (windows-1252), bytes ≥ 0x80 map to characters ≥ U+0080 -/
def asciiTableOkB : Bool :=
  match codecNow tablesNow.ascii with
  | some (.table tbl) => (List.range tbl.length).all (fun i => decide (i < 128) || decide (128 ≤ tbl[i]?.getD 0))
  | _ => false

theorem asciiTableOk : asciiTableOkB = true := by decide +kernel

theorem asciiLaw_now (o : Oracle) : ∀ x t, (worldNow o).decode tablesNow.ascii x = .ok (some t) →
    isAsciiText t = true → x.all (· < 128) = true := by
  intro x t hx ha
  have hok := asciiTableOk
  unfold asciiTableOkB at hok
  cases hc : codecNow tablesNow.ascii with
  | none => rw [hc] at hok; cases hok
  | some c =>
    rw [hc] at hok
    cases c with
    | table tbl =>
      simp only at hok
      have hmbA : Gen.multiByte.contains tablesNow.ascii = false := by decide +kernel
      change decodeNow o false tablesNow.ascii x = _ at hx
      rw [decodeNow_table hc hmbA] at hx
      cases hx' : tableStrict tbl x with
      | error k => simp [hx'] at hx
      | ok t1 =>
        simp only [hx', Except.ok.injEq, Option.some.injEq] at hx
        subst hx
        apply tableStrict_ascii_bytes tbl ?_ x t1 hx' ha
        intro i v hi hv
        have hlt : i < tbl.length := by
          rcases Nat.lt_or_ge i tbl.length with h1 | h1
          · exact h1
          · rw [List.getElem?_eq_none h1] at hv; cases hv
        have := List.all_eq_true.mp hok i (List.mem_range.mpr hlt)
        simp only [Bool.or_eq_true, decide_eq_true_eq, hv, Option.getD_some] at this
        omega
    | utf8 => simp at hok
    | utf16 le => simp at hok
    | external id => simp at hok

/-- **C01 ascii clause for the current tree, inputs that fit the window** -/
theorem C01_ascii_fit_current (o : Oracle)
    {b : Bytes} {s : Settings} {incl excl : List Name}
    (hincl : canonList ianaNow s.incl = .ok incl) (hexcl : canonList ianaNow s.excl = .ok excl)
    (hfit : Fits b s)
    {ms : List (Match Name Name)} (hb : b ≠ [])
    (h : fromBytes (worldNow o) tablesNow sortMatches b s = .ok (.ok ms)) :
    ∀ m ∈ ms, ∀ c ∈ m.entries, c.enc = tablesNow.ascii → b.all (· < 128) = true :=
  C01_ascii_fit_partial sortMatches_perm marksMultiByte_now (lazyLaws_now o) (hchars_now o) (by decide +kernel) (asciiLaw_now o)
    hincl hexcl hfit hb h

end Charset
