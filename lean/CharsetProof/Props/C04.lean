/-
  C04 — chaos threshold is honoured; fallback only when nothing else fits.
-/
import CharsetProof.Lemmas.EntryFacts
import CharsetProof.Lemmas.SortPerm
import CharsetProof.Model.Concrete
set_option linter.unusedSectionVars false
namespace Charset
variable {E L : Type} [DecidableEq E]

/-- the encodings detection treats as self-identifying for this input: declared in the content (when
    pre-emptive behaviour is on), indicated by BOM/signature, ascii, utf-8 -/
def hintsOf (T : Tables E) (b : Bytes) (s : Settings) : List E := prioritized T b s.preemptive

/-- **C04 (a)** — for every world, tables, permutation-sort, non-empty input and settings: either every
    candidate of every match failed the test `chaos >= threshold` (so `chaos < threshold` whenever
    chaos is a number, see `C04_lt`), or the result is one single fallback match whose chaos *equals*
    the threshold, fallback being enabled and its encoding being one of the hints. -/
theorem C04_threshold {W : World E L} {T : Tables E} {sort : Sorter E L}
    (hperm : ∀ l, (sort l).Perm l) {b : Bytes} {s : Settings} {incl excl : List E}
    (hincl : canonList T.ianaName s.incl = .ok incl) (hexcl : canonList T.ianaName s.excl = .ok excl)
    {ms : List (Match E L)} (hb : b ≠ []) (h : fromBytes W T sort b s = .ok (.ok ms)) :
    (∀ m ∈ ms, Fl.ge m.chaos s.thr = false ∧ ∀ c ∈ m.entries, Fl.ge c.chaos s.thr = false) ∨
    (∃ fb, ms = [fb] ∧ fb.subs = [] ∧ fb.chaos = s.thr ∧ s.fallback = true ∧ fb.enc ∈ hintsOf T b s ∧
      fb.cohs = [] ∧ fb.bom = false) := by
  rcases fromBytes_facts hperm hincl hexcl hb h with hall | ⟨fb, rfl, hfb, hsubs⟩
  · left
    intro m hm
    have := Match.allEntries_iff.mp (hall m hm)
    refine ⟨(this m.toSub (by simp [Match.entries])).below, fun c hc => (this c hc).below⟩
  · right
    have f := hfb.1
    refine ⟨fb, rfl, hsubs, f.chaos, f.enabled, ?_, f.cohs, f.bom⟩
    have := f.hint
    simpa [hintsOf, ctxOf, Match.toSub] using this

/-- `¬ (x >= y)` is `x < y` for numbers -/
theorem Fl.lt_of_not_ge {f : Fmt} {x y : Fl f} (hx : x.isNaN = false) (hy : y.isNaN = false)
    (h : Fl.ge x y = false) : Fl.lt x y = true := by
  simp only [Fl.ge, Fl.le, hx, hy, Bool.not_false, Bool.true_and, decide_eq_false_iff_not, Int.not_le] at h
  simp [Fl.lt, hx, hy, h]

/-- **C04 (a')** — with a numeric threshold and numeric chaos, `chaos < threshold` -/
theorem C04_lt {W : World E L} {T : Tables E} {sort : Sorter E L}
    (hperm : ∀ l, (sort l).Perm l) {b : Bytes} {s : Settings} {incl excl : List E}
    (hthr : s.thr.isNaN = false)
    (hincl : canonList T.ianaName s.incl = .ok incl) (hexcl : canonList T.ianaName s.excl = .ok excl)
    {ms : List (Match E L)} (hb : b ≠ []) (h : fromBytes W T sort b s = .ok (.ok ms))
    {m : Match E L} (hm : m ∈ ms) (hnum : m.chaos.isNaN = false) :
    Fl.lt m.chaos s.thr = true ∨ (ms = [m] ∧ m.chaos = s.thr ∧ s.fallback = true ∧ m.enc ∈ hintsOf T b s) := by
  rcases C04_threshold hperm hincl hexcl hb h with h1 | ⟨fb, rfl, _, h2, h3, h4, _⟩
  · left; exact Fl.lt_of_not_ge hnum hthr (h1 m hm).1
  · right
    simp only [List.mem_singleton] at hm
    subst hm
    exact ⟨rfl, h2, h3, h4⟩

/-- **C04 (b, percent accessors)** — `chaos_percents` / `coherence_percents` are exactly the f32
    product of the ratio with 100 (definitional in the model; tied bit-for-bit by T3) -/
theorem C04_percents (m : Match E L) :
    m.chaosPercents = Fl.mul m.chaos (Fl.ofNat fmt32 100) ∧
    m.coherencePercents = Fl.mul m.coherence (Fl.ofNat fmt32 100) := ⟨rfl, rfl⟩

/-- `coherence()` is the score of the first language or zero -/
theorem C04_coherence_head (m : Match E L) :
    m.coherence = (match m.cohs.head? with | some p => p.2 | none => Fl.zero) := by
  unfold Match.coherence
  cases m.cohs with
  | nil => rfl
  | cons p ps => obtain ⟨l, sc⟩ := p; rfl

/-- **C04 (b, range of coherence)** — if every score the merge step produces lies in `[0,1]`
    (a law of `World.merge`; asserted on every merge the harness performs), so does `coherence()` -/
theorem C04_coherence_range {W : World E L} {T : Tables E} {sort : Sorter E L}
    (hperm : ∀ l, (sort l).Perm l)
    (hmerge : ∀ xs r, W.merge xs = .ok r → ∀ p ∈ r, 0 ≤ p.2.key ∧ p.2.key ≤ (Fl.ofNat fmt32 1).key)
    {b : Bytes} {s : Settings} {incl excl : List E}
    (hincl : canonList T.ianaName s.incl = .ok incl) (hexcl : canonList T.ianaName s.excl = .ok excl)
    {ms : List (Match E L)} (hb : b ≠ []) (h : fromBytes W T sort b s = .ok (.ok ms)) :
    ∀ m ∈ ms, 0 ≤ m.coherence.key ∧ m.coherence.key ≤ (Fl.ofNat fmt32 1).key := by
  have hone : (0 : Int) ≤ (Fl.ofNat fmt32 1).key := by decide +kernel
  have hzero : (Fl.zero : F32).key = 0 := rfl
  intro m hm
  have hcoh : ∀ p ∈ m.cohs, 0 ≤ p.2.key ∧ p.2.key ≤ (Fl.ofNat fmt32 1).key := by
    rcases fromBytes_facts hperm hincl hexcl hb h with hall | ⟨fb, rfl, hfb, _⟩
    · obtain ⟨cdl, hc⟩ := (hall m hm).1.cohMerged
      exact hmerge _ _ hc
    · simp only [List.mem_singleton] at hm
      subst hm
      have : m.cohs = [] := hfb.1.cohs
      simp [this]
  unfold Match.coherence
  cases hc : m.cohs with
  | nil => simp [hzero, hone]
  | cons p ps =>
    obtain ⟨l, sc⟩ := p
    exact hcoh (l, sc) (by simp [hc])

/-! ### the current tree -/

theorem C04_threshold_current (o : Oracle) {b : Bytes} {s : Settings} {incl excl : List Name}
    (hincl : canonList ianaNow s.incl = .ok incl) (hexcl : canonList ianaNow s.excl = .ok excl)
    {ms : List (Match Name Name)} (hb : b ≠ [])
    (h : fromBytes (worldNow o) tablesNow sortMatches b s = .ok (.ok ms)) :
    (∀ m ∈ ms, Fl.ge m.chaos s.thr = false ∧ ∀ c ∈ m.entries, Fl.ge c.chaos s.thr = false) ∨
    (∃ fb, ms = [fb] ∧ fb.subs = [] ∧ fb.chaos = s.thr ∧ s.fallback = true ∧ fb.enc ∈ hintsOf tablesNow b s ∧
      fb.cohs = [] ∧ fb.bom = false) :=
  C04_threshold (sortMatches_perm) hincl hexcl hb h

/-- non-vacuity of the comparison lemma: 0.1 < 0.2 in the float model -/
example : Fl.ge (F32.lit 1 10) (F32.lit 1 5) = false ∧ Fl.lt (F32.lit 1 10) (F32.lit 1 5) = true := by
  decide +kernel

end Charset
