/-
  C14 — detecting from a path equals detecting from the file's bytes.
  The model of `from_path` is three lines; what carries weight here is the correspondence (T3) with
  real files and real I/O faults. Level: proof of the decision logic, partial (the OS read path is
  observed, not proved).
-/
import CharsetProof.Model.Path
namespace Charset
variable {E L : Type} [DecidableEq E]

/-- **C14** — for a readable file of any size (empty included) the result is exactly the result of
    `from_bytes` on the complete content with the same settings -/
theorem C14_file {W : World E L} {T : Tables E} {sort : Sorter E L} {fs : Name → Node} {p : Name}
    {b : Bytes} (s : Settings) (h : fs p = .file b) :
    fromPath W T sort fs p s = .detected (fromBytes W T sort b s) := by
  unfold fromPath; rw [h]

/-- a missing path, a directory, an unreadable file, a path through a non-directory or a failing read
    produce a returned error – never a partial detection result -/
theorem C14_faults {W : World E L} {T : Tables E} {sort : Sorter E L} {fs : Name → Node} {p : Name}
    (s : Settings) (h : ∀ b, fs p ≠ .file b) :
    ∃ e, fromPath W T sort fs p s = .ioError e := by
  unfold fromPath
  cases hn : fs p with
  | file b => exact absurd hn (h b)
  | dir => exact ⟨_, rfl⟩
  | readFails => exact ⟨_, rfl⟩
  | missing => exact ⟨_, rfl⟩
  | denied => exact ⟨_, rfl⟩
  | notDir => exact ⟨_, rfl⟩

/-- a detection result is returned only for readable files, and then for their whole content -/
theorem C14_detected_iff {W : World E L} {T : Tables E} {sort : Sorter E L} {fs : Name → Node} {p : Name}
    (s : Settings) {r : M (Except Err (List (Match E L)))}
    (h : fromPath W T sort fs p s = .detected r) : ∃ b, fs p = .file b ∧ r = fromBytes W T sort b s := by
  unfold fromPath at h
  cases hn : fs p with
  | file b => rw [hn] at h; cases h; exact ⟨b, rfl, rfl⟩
  | dir => rw [hn] at h; cases h
  | readFails => rw [hn] at h; cases h
  | missing => rw [hn] at h; cases h
  | denied => rw [hn] at h; cases h
  | notDir => rw [hn] at h; cases h

/-- non-vacuity -/
example : ∃ (fs : Name → Node), fs [97] = .file [1, 2, 3] ∧ fs [98] = .dir :=
  ⟨fun p => if p = [97] then .file [1, 2, 3] else .dir, by decide, by decide⟩

end Charset
