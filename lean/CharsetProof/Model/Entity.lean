/-
  Model of `entity.rs`: `CharsetMatch`, its ordering, the `CharsetMatches` container.
-/
import CharsetProof.Model.Tables
import CharsetProof.Model.Sort
namespace Charset

/-- A sub-match (an encoding that produced the same text and chaos). Nested sub-matches of
    sub-matches are not modelled: detection never creates them. -/
structure Sub (E L : Type) where
  raw   : Bytes
  enc   : E
  chaos : F32
  cohs  : List (L × F32)
  bom   : Bool
  text  : Option Text
  deriving DecidableEq, Repr

structure Match (E L : Type) where
  raw   : Bytes
  enc   : E
  chaos : F32
  cohs  : List (L × F32)
  bom   : Bool
  subs  : List (Sub E L)
  text  : Option Text
  deriving DecidableEq, Repr

namespace Match
variable {E L : Type}

def toSub (m : Match E L) : Sub E L := ⟨m.raw, m.enc, m.chaos, m.cohs, m.bom, m.text⟩

/-- `suitable_encodings()` -/
def cands (m : Match E L) : List E := m.enc :: m.subs.map (·.enc)

/-- `coherence()` -/
def coherence (m : Match E L) : F32 :=
  match m.cohs with
  | [] => Fl.zero
  | (_, s) :: _ => s

/-- `languages()` -/
def languages (m : Match E L) : List L := m.cohs.map (·.1)

/-- `multi_byte_usage()` = `1.0 - chars as f32 / payload_len as f32` -/
def mbu (m : Match E L) : F32 :=
  let chars := Fl.ofNat fmt32 (m.text.getD []).length
  let len := Fl.ofNat fmt32 m.raw.length
  Fl.sub (Fl.ofNat fmt32 1) (Fl.div chars len)

def chaosPercents (m : Match E L) : F32 := Fl.mul m.chaos (Fl.ofNat fmt32 100)
def coherencePercents (m : Match E L) : F32 := Fl.mul m.coherence (Fl.ofNat fmt32 100)

/-- the three numbers `Ord for CharsetMatch` looks at -/
structure Key where
  chaos : F32
  coh   : F32
  mbu   : F32
  deriving DecidableEq, Repr

def key (m : Match E L) : Key := ⟨m.chaos, m.coherence, m.mbu⟩

/-- `impl Ord for CharsetMatch`, as a function of the keys -/
def cmpKey (a b : Key) : Ordering :=
  let messDiff := Fl.abs (Fl.sub a.chaos b.chaos)
  let cohDiff := Fl.abs (Fl.sub a.coh b.coh)
  if Fl.lt messDiff (F32.lit 1 100) then
    if Fl.gt cohDiff (F32.lit 2 100) then Fl.ocmp b.coh a.coh
    else
      let d := Fl.abs (Fl.sub a.mbu b.mbu)
      if Fl.gt d F32.epsilon then Fl.ocmp b.mbu a.mbu
      else Fl.ocmp a.chaos b.chaos
  else Fl.ocmp a.chaos b.chaos

/-- `impl Ord for CharsetMatch` -/
def cmp (a b : Match E L) : Ordering := cmpKey a.key b.key

/-- `is_less` handed to `sort_unstable` -/
def lt (a b : Match E L) : Bool := cmp a b == .lt

def ltKey (a b : Key) : Bool := cmpKey a b == .lt

end Match

/-- `most_probably_language()`: first listed language if any, else English when `ascii` is a
    candidate, else the first language tied to / inferred from the encoding, else Unknown -/
def mostProbable {E L : Type} [DecidableEq E] (english unknown : L) (ascii : E) (inferred : E → List L)
    (m : Match E L) : L :=
  match m.cohs with
  | (l, _) :: _ => l
  | [] => if m.cands.contains ascii then english else (inferred m.enc).head?.getD unknown

/-- `CharsetMatch::default()`: the answer for empty input -/
def Match.default {E L} (utf8 : E) : Match E L :=
  ⟨[], utf8, Fl.zero, [], false, [], none⟩

variable {E L : Type}

/-- the merge test of `append` -/
def sameOutput (m item : Match E L) : Bool :=
  (m.text == item.text) && Fl.lt (Fl.abs (Fl.sub m.chaos item.chaos)) F32.epsilon

/-- add `item` as sub-match of the first element that has the same output -/
def mergeInto (item : Match E L) : List (Match E L) → Option (List (Match E L))
  | [] => none
  | m :: ms =>
    if sameOutput m item then some ({ m with subs := m.subs ++ [item.toSub] } :: ms)
    else (mergeInto item ms).map (m :: ·)

/-- the sort used by the container, as a parameter (instantiated with `sortUnstable Match.lt`) -/
abbrev Sorter (E L) := List (Match E L) → List (Match E L)

/-- `CharsetMatches::append` -/
def append (sort : Sorter E L) (tooBig : Nat) (items : List (Match E L)) (item : Match E L) :
    List (Match E L) :=
  match (if item.raw.length ≤ tooBig then mergeInto item items else none) with
  | some items' => items'
  | none => sort (items ++ [item])

/-- `CharsetMatches::new(Some(items))` -/
def newContainer (sort : Sorter E L) (items : List (Match E L)) : List (Match E L) := sort items

/-- `get_best()` -/
def getBest (items : List (Match E L)) : Option (Match E L) := items.head?

/-- `get_by_encoding(name)`: first match one of whose candidates is the canonical name -/
def getByEncoding [DecidableEq E] (ianaName : Name → Option E) (items : List (Match E L)) (n : Name) :
    Option (Match E L) :=
  match ianaName n with
  | none => none
  | some e => items.find? (fun m => m.cands.contains e)

end Charset
