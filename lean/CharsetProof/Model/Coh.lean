/-
  `cd::coherence_ratio` with its components inside the model:
  `alpha_unicode_split` (layers by Unicode block, suspicious-range rule), the most-common-characters
  order (`Counter::most_common_ordered`), `alphabet_languages`, `characters_popularity_compare`
  (= `strsim::jaro` in f64, narrowed to f32), and – through `coherenceRatioModel` of `Cd.lean` – the
  threshold / sufficiency / break logic, `filter_alt_coherence_matches` and the final sort.

  Outside the model: three per-character facts of the Unicode database (`char::is_alphabetic`,
  `char::to_lowercase`, `utils::is_accentuated`), parameter `CohEnv`; the language table and the block
  table are dumped from the compiled crate (T1).
-/
import CharsetProof.Model.Cd
import CharsetProof.Model.RangeRules
namespace Charset
namespace Coh

structure CohEnv where
  isAlpha : Nat → Bool
  lower   : Nat → List Nat
  accent  : Nat → Bool

/-- language table rows: (language, characters by popularity, has accents, pure latin) -/
abbrev LangTable := List (Name × List Nat × Bool × Bool)

/-! ### alpha_unicode_split -/

/-- append `cs` to the layer named `key` (which exists) -/
def appendLayer (key : Name) (cs : List Nat) : List (Name × Text) → List (Name × Text)
  | [] => []
  | (k, t) :: rest => if k = key then (k, t ++ cs) :: rest else (k, t) :: appendLayer key cs rest

def splitStep (env : CohEnv) (ranges : List (Name × Nat × Nat)) (secondary : List Name)
    (layers : List (Name × Text)) (ch : Nat) : List (Name × Text) :=
  if !env.isAlpha ch then layers else
  match unicodeRangeOf ranges ch with
  | none => layers
  | some r =>
    let key := ((layers.map (·.1)).find? (fun k => !suspRange secondary (some k) (some r))).getD r
    let layers := if (layers.map (·.1)).contains key then layers else layers ++ [(key, [])]
    appendLayer key (env.lower ch) layers

/-- `alpha_unicode_split(text)`: the layers in order of creation -/
def alphaSplit (env : CohEnv) (ranges : List (Name × Nat × Nat)) (secondary : List Name) (t : Text) : List Text :=
  (t.foldl (splitStep env ranges secondary) []).map (·.2)

/-! ### most common characters -/

def countOf (c : Nat) (t : Text) : Nat := (t.filter (· == c)).length

def dedupNat : List Nat → List Nat
  | [] => []
  | x :: xs => x :: (dedupNat xs).filter (fun y => y != x)

/-- `Counter::most_common_ordered()`: by count descending, ties by character ascending; keys only -/
def popular (layer : Text) : List Nat :=
  let items := (dedupNat layer).map (fun c => (c, countOf c layer))
  (insertionSort (fun (a b : Nat × Nat) => decide (b.2 < a.2) || (a.2 == b.2 && decide (a.1 < b.1))) items).map (·.1)

/-! ### alphabet_languages -/

def ratioOf (inter total : Nat) : F32 := Fl.div (Fl.ofNat fmt32 inter) (Fl.ofNat fmt32 total)

def alphabetLanguages (env : CohEnv) (tbl : LangTable) (chars : List Nat) (ignoreNonLatin : Bool) : List Name :=
  let src := dedupNat chars
  let hasAccents := src.any env.accent
  let cands : List (Name × F32) := tbl.filterMap (fun row =>
    let (lang, lchars, haveAcc, pureLatin) := row
    if (ignoreNonLatin && !pureLatin) || (!haveAcc && hasAccents) then none else
    let lset := dedupNat lchars
    let inter := lset.filter (fun c => src.contains c)
    let ratio := ratioOf inter.length lset.length
    if Fl.ge ratio (F32.lit 2 10) then some (lang, ratio) else none)
  (sortUnstableSmall (fun (a b : Name × F32) => Fl.ocmp b.2 a.2 == .lt) cands).map (·.1)

/-! ### strsim::jaro -/

/-- first unflagged position `j ∈ [lo, hi)` of `b` holding `x` -/
def findMatch (x : Nat) (b : Array Nat) (flags : Array Bool) (lo hi : Nat) : Option Nat :=
  (List.range hi).find? (fun j => decide (lo ≤ j) && b[j]? == some x && flags[j]? == some false)

/-- one iteration of the matching loop: element `x` at index `i` of `a` -/
def jaroStep (b : Array Nat) (sr : Nat) (st : List Bool × Array Bool × Nat) (ix : Nat × Nat) :
    List Bool × Array Bool × Nat :=
  let lo := if ix.1 > sr then ix.1 - sr else 0
  let hi := min b.size (ix.1 + sr + 1)
  match findMatch ix.2 b st.2.1 lo hi with
  | some j => (true :: st.1, st.2.1.setIfInBounds j true, st.2.2 + 1)
  | none => (false :: st.1, st.2.1, st.2.2)

/-- the matching pass: flags of `a` (as a list) and `b`, number of matches -/
def jaroMatch (a : List Nat) (b : Array Nat) : List Bool × Array Bool × Nat :=
  let sr := (max a.length b.size) / 2 - 1
  let r := (a.zipIdx.map (fun p => (p.2, p.1))).foldl (jaroStep b sr) ([], Array.replicate b.size false, 0)
  (r.1.reverse, r.2.1, r.2.2)

/-- `strsim::jaro(a, b)` -/
def jaro (a b : List Nat) : F64 :=
  if a.isEmpty && b.isEmpty then Fl.ofNat fmt64 1
  else if a.isEmpty || b.isEmpty then Fl.zero
  else
    let (aFlags, bFlags, m) := jaroMatch a b.toArray
    if m = 0 then Fl.zero else
    let am := (a.zip aFlags).filterMap (fun p => if p.2 then some p.1 else none)
    let bm := (b.zip bFlags.toList).filterMap (fun p => if p.2 then some p.1 else none)
    let t := ((am.zip bm).filter (fun p => p.1 != p.2)).length / 2
    let f (n : Nat) : F64 := Fl.ofNat fmt64 n
    Fl.div (Fl.add (Fl.add (Fl.div (f m) (f a.length)) (Fl.div (f m) (f b.length))) (Fl.div (f (m - t)) (f m)))
      (f 3)

/-- `characters_popularity_compare(language, ordered) = jaro(ordered, first table row of language) as f32`;
    `none` = "Language wasn't found" -/
def popularityCompare (tbl : LangTable) (lang : Name) (ordered : List Nat) : Option F32 :=
  match tbl.find? (fun row => row.1 == lang) with
  | none => none
  | some row => some (F64.toF32 (jaro ordered row.2.1))

/-! ### coherence_ratio -/

def nUnknownLang : Name := [85,110,107,110,111,119,110]

/-- `coherence_ratio(text, Some(thr), Some(include))`; `none` = the `Err` of an unknown language -/
def coherenceRatio (env : CohEnv) (ranges : List (Name × Nat × Nat)) (secondary : List Name) (tbl : LangTable)
    (tooSmall : Nat) (t : Text) (thr : F32) (incl : List Name) : Option (List (Name × F32)) :=
  let ignoreNonLatin := incl == [nUnknownLang]
  let incl := if ignoreNonLatin then [] else incl
  let layers := ((alphaSplit env ranges secondary t).filter (fun l => decide (tooSmall < l.length))).toArray
  let pops : Array (List Nat) := layers.map popular
  let cands (i : Nat) : List Name :=
    if incl.isEmpty then alphabetLanguages env tbl (pops[i]?.getD []) ignoreNonLatin else incl
  -- the `?` on characters_popularity_compare: every candidate must be a known language
  if (List.range layers.size).any (fun i => (cands i).any (fun l => (popularityCompare tbl l (pops[i]?.getD [])).isNone))
  then none
  else
    let score (i : Nat) (l : Name) : F32 := (popularityCompare tbl l (pops[i]?.getD [])).getD Fl.zero
    some (coherenceRatioModel thr layers.size score cands)

end Coh
end Charset
