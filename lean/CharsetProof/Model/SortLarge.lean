/-
  Executable model of `core::slice::sort::unstable::ipnsort` as instantiated for a 128-byte element
  type (`CharsetMatch`): run detection, quicksort with median-of-3 (recursive pseudo-median from 64
  elements), Hoare "branchy cyclic" partition (element size > 96 bytes), insertion sort for
  sub-slices of ≤ 16 elements (scratch of 48 elements would exceed 4096 bytes → fallback small sort),
  heapsort when the recursion limit is exhausted, and the ancestor-pivot "equal" partition.

  The algorithm works on an array of *indices* into the input, so no `Inhabited` instance is needed
  and stale slots of the cyclic permutation behave exactly like the moved-from memory in Rust.
  All loops carry fuel bounded by the slice length; nothing here is `partial`.
-/
import CharsetProof.Model.Sort
namespace Charset

abbrev IdxLt := Nat → Nat → Bool

namespace SortLarge

/-- element (an index into the original list) at position `i` of the working array -/
@[inline] def at' (a : Array Nat) (i : Nat) : Nat := a[i]?.getD 0

def swap (a : Array Nat) (i j : Nat) : Array Nat :=
  let x := at' a i
  let y := at' a j
  (a.setIfInBounds i y).setIfInBounds j x

/-- `insert_tail` on `a[lo ..= tail]` -/
def insertTail (lt : IdxLt) (a : Array Nat) (lo tail : Nat) : Array Nat :=
  let tmp := at' a tail
  -- shift while lt tmp a[sift]
  let rec go (fuel : Nat) (a : Array Nat) (hole : Nat) : Array Nat :=
    match fuel with
    | 0 => a.setIfInBounds hole tmp
    | fuel + 1 =>
      if hole ≤ lo then a.setIfInBounds hole tmp
      else if lt tmp (at' a (hole - 1)) then go fuel (a.setIfInBounds hole (at' a (hole - 1))) (hole - 1)
      else a.setIfInBounds hole tmp
  go (tail - lo + 1) a tail

/-- `insertion_sort_shift_left(v, 1)` on `a[lo .. hi)` -/
def insertionSortRange (lt : IdxLt) (a : Array Nat) (lo hi : Nat) : Array Nat :=
  (List.range (hi - lo - 1)).foldl (fun a k => insertTail lt a lo (lo + 1 + k)) a

/-- `sift_down` on the heap `a[lo .. lo+len)` -/
def siftDown (lt : IdxLt) (lo len : Nat) : Nat → Array Nat → Nat → Array Nat
  | 0, a, _ => a
  | fuel + 1, a, node =>
    let child := 2 * node + 1
    if len ≤ child then a else
    let child := if child + 1 < len ∧ lt (at' a (lo + child)) (at' a (lo + child + 1)) then child + 1 else child
    if !lt (at' a (lo + node)) (at' a (lo + child)) then a
    else siftDown lt lo len fuel (swap a (lo + node) (lo + child)) child

/-- `heapsort` on `a[lo .. hi)` -/
def heapsortRange (lt : IdxLt) (a : Array Nat) (lo hi : Nat) : Array Nat :=
  let len := hi - lo
  -- i runs over (0 .. len + len/2).rev()
  (List.range (len + len / 2)).reverse.foldl (fun a i =>
    if len ≤ i then siftDown lt lo (min i len) (len + 1) a (i - len)
    else
      let a := swap a lo (lo + i)
      siftDown lt lo (min i len) (len + 1) a 0) a

def median3 (lt : IdxLt) (a : Array Nat) (ia ib ic : Nat) : Nat :=
  let x := lt (at' a ia) (at' a ib)
  let y := lt (at' a ia) (at' a ic)
  if x = y then
    let z := lt (at' a ib) (at' a ic)
    if z != x then ic else ib
  else ia

def median3Rec (lt : IdxLt) (a : Array Nat) : Nat → Nat → Nat → Nat → Nat → Nat
  | 0, ia, ib, ic, _ => median3 lt a ia ib ic
  | fuel + 1, ia, ib, ic, n =>
    if 64 ≤ n * 8 then
      let n8 := n / 8
      let ia' := median3Rec lt a fuel ia (ia + n8 * 4) (ia + n8 * 7) n8
      let ib' := median3Rec lt a fuel ib (ib + n8 * 4) (ib + n8 * 7) n8
      let ic' := median3Rec lt a fuel ic (ic + n8 * 4) (ic + n8 * 7) n8
      median3 lt a ia' ib' ic'
    else median3 lt a ia ib ic

/-- `choose_pivot` on `a[lo .. hi)`: absolute position of the pivot -/
def choosePivot (lt : IdxLt) (a : Array Nat) (lo hi : Nat) : Nat :=
  let len := hi - lo
  let l8 := len / 8
  if len < 64 then median3 lt a lo (lo + l8 * 4) (lo + l8 * 7)
  else median3Rec lt a len lo (lo + l8 * 4) (lo + l8 * 7) l8

structure Hoare where
  a     : Array Nat
  left  : Nat
  right : Nat
  gap   : Option (Nat × Nat)   -- (pos, value)

/-- `partition_hoare_branchy_cyclic` on `a[lo .. hi)` against pivot element `p`;
    `isLess x` = `is_less(x, pivot)`; returns the array and the number of elements moved left -/
def hoare (isLess : Nat → Bool) (a : Array Nat) (lo hi : Nat) : Array Nat × Nat :=
  if hi ≤ lo then (a, 0) else
  let rec scanLeft (fuel : Nat) (a : Array Nat) (left right : Nat) : Nat :=
    match fuel with
    | 0 => left
    | fuel + 1 => if left < right ∧ isLess (at' a left) then scanLeft fuel a (left + 1) right else left
  -- returns new `right` as `right + 1` offset-free: we keep `right` as "one past" convention? No:
  -- mirror the code: right := right - 1 first, stop if left >= right or isLess a[right]
  let rec scanRight (fuel : Nat) (a : Array Nat) (left right : Nat) : Nat × Bool :=
    -- returns (right, crossed) where crossed = left >= right
    match fuel with
    | 0 => (right, true)
    | fuel + 1 =>
      if right = 0 then (0, true) else
      let right := right - 1
      if right ≤ left then (right, true)
      else if isLess (at' a right) then (right, false)
      else scanRight fuel a left right
  let rec outer (fuel : Nat) (st : Hoare) : Hoare :=
    match fuel with
    | 0 => st
    | fuel + 1 =>
      let left := scanLeft (hi - lo + 1) st.a st.left st.right
      let (right, crossed) := scanRight (hi - lo + 1) st.a left st.right
      if crossed then { st with left := left, right := right }
      else
        let a := st.a
        let a := match st.gap with
          | none => a
          | some (pos, _) => a.setIfInBounds pos (at' a left)
        let gapVal := match st.gap with | none => at' st.a left | some (_, v) => v
        let a := a.setIfInBounds left (at' a right)
        outer fuel { a := a, left := left + 1, right := right, gap := some (right, gapVal) }
  let st := outer (hi - lo + 1) { a := a, left := lo, right := hi, gap := none }
  let a := match st.gap with | none => st.a | some (pos, v) => st.a.setIfInBounds pos v
  (a, st.left - lo)

/-- `partition(v, pivot, is_less)` on `a[lo .. hi)`; `pivotPos` absolute. Returns `num_lt`. -/
def partition (less : Nat → Nat → Bool) (a : Array Nat) (lo hi pivotPos : Nat) : Array Nat × Nat :=
  if hi ≤ lo then (a, 0) else
  let a := swap a lo pivotPos
  let p := at' a lo
  let (a, numLt) := hoare (fun x => less x p) a (lo + 1) hi
  (swap a lo (lo + numLt), numLt)

/-- `quicksort(v, ancestor_pivot, limit, is_less)` on `a[lo .. hi)` -/
def quicksort (lt : IdxLt) : Nat → Array Nat → Nat → Nat → Option Nat → Nat → Array Nat
  | 0, a, _, _, _, _ => a
  | fuel + 1, a, lo, hi, ancestor, limit =>
    if hi - lo ≤ 16 then (if hi - lo ≥ 2 then insertionSortRange lt a lo hi else a)
    else if limit = 0 then heapsortRange lt a lo hi
    else
      let limit := limit - 1
      let pivotPos := choosePivot lt a lo hi
      let eqCase : Bool := match ancestor with
        | some p => !lt p (at' a pivotPos)
        | none => false
      if eqCase then
        let (a, numLe) := partition (fun x y => !lt y x) a lo hi pivotPos
        quicksort lt fuel a (lo + numLe + 1) hi none limit
      else
        let (a, numLt) := partition lt a lo hi pivotPos
        let pivot := at' a (lo + numLt)
        let a := quicksort lt fuel a lo (lo + numLt) ancestor limit
        quicksort lt fuel a (lo + numLt + 1) hi (some pivot) limit

/-- `find_existing_run` -/
def findRun (lt : IdxLt) (a : Array Nat) (len : Nat) : Nat × Bool :=
  if len < 2 then (len, false) else
  let desc := lt (at' a 1) (at' a 0)
  let rec go (fuel : Nat) (run : Nat) : Nat :=
    match fuel with
    | 0 => run
    | fuel + 1 =>
      if run < len ∧ (if desc then lt (at' a run) (at' a (run - 1)) else !lt (at' a run) (at' a (run - 1)))
      then go fuel (run + 1) else run
  (go len 2, desc)

def ipnsortIdx (lt : IdxLt) (n : Nat) : Array Nat :=
  let a : Array Nat := (List.range n).toArray
  let (run, rev) := findRun lt a n
  if run = n then (if rev then a.reverse else a)
  else
    let limit := 2 * Nat.log2 (n ||| 1)
    quicksort lt (2 * n + 2) a 0 n none limit

end SortLarge

/-- `ipnsort(v, is_less)` for the element layout of `CharsetMatch`.
    The index array computed by the algorithm is checked to be a permutation of `0..n` (it always
    is – the Rust code only moves elements); if it were not, the input is returned unchanged. This
    run-time validation is what makes `ipnsort_perm` provable without a proof about the cyclic
    partition; exact agreement with std's output is checked by the correspondence (T3). -/
def ipnsort {α : Type} (lt : α → α → Bool) (l : List α) : List α :=
  let arr := l.toArray
  let ilt : IdxLt := fun i j =>
    match arr[i]?, arr[j]? with
    | some x, some y => lt x y
    | _, _ => false
  let idx := (SortLarge.ipnsortIdx ilt l.length).toList
  if idx.isPerm (List.range l.length) then idx.filterMap (fun i => l[i]?) else l

/-- `slice::sort_unstable_by(is_less)` for a 128-byte element type -/
def sortUnstable {α : Type} (lt : α → α → Bool) (l : List α) : List α := sortUnstableWith ipnsort lt l

end Charset
