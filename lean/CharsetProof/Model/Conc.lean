/-
  Thread-interleaving semantics of concurrent memoised calls on one shared cache.
  Each thread runs the macro expansion as a sequence of atomic steps; a schedule is any list of
  thread indices (a step of a thread that is not enabled – it wants the lock and someone else holds
  it – leaves the system unchanged).
-/
import CharsetProof.Model.Memo
namespace Charset

variable {K V : Type} [DecidableEq K]

inductive PC (V : Type)
  | start                  -- about to lock for the lookup
  | locked1                -- holds the lock, about to get + unlock
  | compute                -- miss: computing the body, no lock held
  | computed (v : V)       -- about to lock for the insertion
  | locked2 (v : V)        -- holds the lock, about to set + unlock
  | done (v : V)           -- returned v
  deriving DecidableEq, Repr

structure Thread (K V : Type) where
  key : K
  pc  : PC V

structure Sys (K V : Type) where
  cache   : CacheEntries K V
  lock    : Option Nat          -- index of the thread holding the mutex
  threads : List (Thread K V)

def holdsLock (pc : PC V) : Bool :=
  match pc with
  | .locked1 => true
  | .locked2 _ => true
  | _ => false

def isDone (pc : PC V) : Bool :=
  match pc with
  | .done _ => true
  | _ => false

/-- can thread `i` (with program counter `pc`) take a step? -/
def enabled (lock : Option Nat) (pc : PC V) : Bool :=
  match pc with
  | .start => lock.isNone
  | .computed _ => lock.isNone
  | .done _ => false
  | _ => true

/-- one atomic step of thread `i` -/
def stepThread (f : K → V) (ev : Evict K V) (s : Sys K V) (i : Nat) : Sys K V :=
  match s.threads[i]? with
  | none => s
  | some t =>
    if !enabled s.lock t.pc then s else
    match t.pc with
    | .start => { s with lock := some i, threads := s.threads.set i { t with pc := .locked1 } }
    | .locked1 =>
      match cacheGet s.cache t.key with
      | some v => { s with lock := none, threads := s.threads.set i { t with pc := .done v } }
      | none => { s with lock := none, threads := s.threads.set i { t with pc := .compute } }
    | .compute => { s with threads := s.threads.set i { t with pc := .computed (f t.key) } }
    | .computed v => { s with lock := some i, threads := s.threads.set i { t with pc := .locked2 v } }
    | .locked2 v =>
      { cache := ev.run ((t.key, v) :: s.cache), lock := none,
        threads := s.threads.set i { t with pc := .done v } }
    | .done _ => s

def runSchedule (f : K → V) (ev : Evict K V) : List Nat → Sys K V → Sys K V
  | [], s => s
  | i :: is, s => runSchedule f ev is (stepThread f ev s i)

/-- initial system: every thread about to call with its key, cold or warm cache, mutex free -/
def initSys (cache : CacheEntries K V) (keys : List K) : Sys K V :=
  { cache := cache, lock := none, threads := keys.map (fun k => ⟨k, .start⟩) }

end Charset
