/-
  Fault-instrumented retry loop of `utils::decode` (utils.rs:226-253): the slice `&input[begin..end]`,
  `end_offset -= 1`, `end_offset - begin_offset` and `chunk_len - end_offset` are operations that can fail
  (slice out of order / unsigned underflow).  `Props/C02b.lean` proves they never do, for every strict
  decoder that accepts the empty input, and that the loop computes exactly `chunkRetry`.
-/
import CharsetProof.Model.Decode
import CharsetProof.Model.MdFault
namespace Charset
open Md (FE subF)

/-- result of the instrumented loop: a fault, or what the plain loop returns -/
def sliceFE (site : Nat) (b : Bytes) (i j : Nat) : FE Bytes :=
  if i ≤ j ∧ j ≤ b.length then .ok ((b.drop i).take (j - i)) else .error (.slice site)

/-- utils.rs:246-249 `end_offset - begin_offset < 1 || begin_offset > 3 || (chunk_len - end_offset) > 3` -/
def retryStopF (len b e : Nat) : FE Bool :=
  match subF 246 e b with
  | .error f => .error f
  | .ok d =>
    if d < 1 ∨ 3 < b then .ok true      -- `||` short-circuits: the last subtraction is not evaluated
    else match subF 248 len e with
      | .error f => .error f
      | .ok r => .ok (decide (3 < r))

def chunkRetryF (strict : Bytes → Except ErrKind Text) (input : Bytes) :
    Nat → Nat → Nat → FE (Except ErrKind Text)
  | 0, beginOff, endOff =>
    match sliceFE 229 input beginOff endOff with
    | .error f => .error f
    | .ok sl => .ok (strict sl)
  | fuel + 1, beginOff, endOff =>
    match sliceFE 229 input beginOff endOff with
    | .error f => .error f
    | .ok sl =>
      match strict sl with
      | .ok t => .ok (.ok t)
      | .error k =>
        let b' := if k = .invalid then beginOff + 1 else beginOff
        match (if k = .incomplete then subF 244 endOff 1 else .ok endOff) with
        | .error f => .error f
        | .ok e' =>
          match retryStopF input.length b' e' with
          | .error f => .error f
          | .ok true => .ok (.error k)
          | .ok false => chunkRetryF strict input fuel b' e'

end Charset
