/-
  Model of `md/structs.rs: new_mess_detector_character`: how the flag word of a character is derived
  from primitive Unicode facts.  The primitives (White_Space, Alphabetic, Numeric, Lowercase, Uppercase,
  general category, script, the emoji sets, Unified_Ideograph, `is_accentuated`) are parameters; the
  derivation – which tests are nested in which, which exclude each other – is Lean code, compared with
  the crate on every code point.
-/
import CharsetProof.Model.Md
import CharsetProof.Model.RangeRules
namespace Charset
namespace CharFlags

structure Prim where
  ws      : Bool   -- char::is_whitespace
  numeric : Bool   -- char::is_numeric
  alpha   : Bool   -- char::is_alphabetic
  lower   : Bool   -- char::is_lowercase
  upper   : Bool   -- char::is_uppercase
  emoji   : Bool   -- emoji_component ∨ emoji_modifier ∨ emoji_modifier_base ∨ emoji_presentation
  uideo   : Bool   -- Unified_Ideograph
  accent  : Bool   -- utils::is_accentuated
  gc      : Nat    -- icu `GeneralCategory` discriminant
  script  : Nat    -- 1 Latin, 2 Han, 3 Hangul, 4 Katakana, 5 Hiragana, 6 Thai, 0 anything else

/-! icu `GeneralCategory` discriminants and the groups the code tests -/
def gcControl (g : Nat) : Bool := g == 15
def gcSeparator (g : Nat) : Bool := g == 12 || g == 13 || g == 14
def gcPunctuation (g : Nat) : Bool := g == 19 || g == 20 || g == 21 || g == 22 || g == 23 || g == 28 || g == 29
def gcNumber (g : Nat) : Bool := g == 9 || g == 10 || g == 11
def gcSymbol (g : Nat) : Bool := g == 24 || g == 25 || g == 26 || g == 27
def gcOtherDashConnector (g : Nat) : Bool := g == 23 || g == 19 || g == 22

def bit (n : Nat) : Nat := 2 ^ n
def setIf (c : Bool) (b : Nat) (fl : Nat) : Nat := if c then fl ||| bit b else fl

open Md in
/-- the flag word of `new_mess_detector_character(cp)` -/
def flagsOf (p : Prim) (commonSafe : List Nat) (cp : Nat) (range : Option Name) : Nat :=
  let isAscii := cp < 128
  let asciiGraphic := 0x21 ≤ cp ∧ cp ≤ 0x7E
  let asciiAlpha := (65 ≤ cp ∧ cp ≤ 90) ∨ (97 ≤ cp ∧ cp ≤ 122)
  let asciiDigit := 48 ≤ cp ∧ cp ≤ 57
  -- ascii probing
  let fl := 0
  let fl := setIf (decide isAscii) ASCII fl
  let fl := setIf (decide (isAscii ∧ asciiGraphic)) ASCII_GRAPHIC fl
  let fl := setIf (decide (isAscii ∧ asciiGraphic ∧ asciiAlpha)) ASCII_ALPHABETIC fl
  let fl := setIf (decide (isAscii ∧ asciiGraphic ∧ ¬ asciiAlpha ∧ asciiDigit)) ASCII_DIGIT fl
  let hasDigit := decide (isAscii ∧ asciiGraphic ∧ ¬ asciiAlpha ∧ asciiDigit)
  let hasAlpha := decide (isAscii ∧ asciiGraphic ∧ asciiAlpha)
  let hasGraphic := decide (isAscii ∧ asciiGraphic)
  let fl :=
    if p.ws then setIf true SEPARATOR (setIf true WHITESPACE fl)
    else
      let fl := setIf (commonSafe.contains cp) COMMON_SAFE fl
      let fl := setIf ([60, 62, 45, 61, 126, 124, 95].contains cp) WEIRD_SAFE fl   -- "<>-=~|_"
      let fl :=
        if hasDigit || p.numeric then setIf true NUMERIC fl
        else if hasAlpha || p.alpha then
          let fl := setIf true ALPHABETIC fl
          if p.lower then setIf true CASE_VARIABLE (setIf true LOWERCASE fl)
          else if p.upper then setIf true CASE_VARIABLE (setIf true UPPERCASE fl)
          else fl
        else if !hasGraphic && !(cp == 0x1A || cp == 0xFEFF) && gcControl p.gc then setIf true UNPRINTABLE fl
        else fl
      let fl := setIf p.emoji EMOTICON fl
      setIf ([0xFF5C, 43, 60, 62].contains cp || gcSeparator p.gc || gcOtherDashConnector p.gc) SEPARATOR fl
  let fl := setIf (gcPunctuation p.gc) PUNCTUATION fl
  let fl := setIf (gcNumber p.gc || gcSymbol p.gc || (match range with | some r => containsSub r sForms | none => false)) SYMBOL fl
  let fl :=
    match p.script with
    | 1 => setIf true LATIN fl
    | 2 => setIf true CJK fl
    | 3 => setIf true HANGUL fl
    | 4 => setIf true KATAKANA fl
    | 5 => setIf true HIRAGANA fl
    | 6 => setIf true THAI fl
    | _ => setIf p.uideo CJK fl
  setIf p.accent ACCENTUATED fl

end CharFlags
end Charset
