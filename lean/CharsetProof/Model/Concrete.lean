/-
  The concrete instance the driver executes and the `*_current` theorems talk about:
  `Tables Name` built from `Generated/TablesNow.lean`, and a `World` whose single-byte / UTF-8 / UTF-16
  codecs are the Lean definitions of `Codec.lean`, the rest answered by a finite oracle table.
-/
import CharsetProof.Model.Detect
import CharsetProof.Model.Decode
import CharsetProof.Model.Names
import CharsetProof.Model.SortLarge
import CharsetProof.Model.Cd
import CharsetProof.Generated.TablesNow
namespace Charset

def nASCII : Name := [97,115,99,105,105]
def nUTF8 : Name := [117,116,102,45,56]
def nUTF16LE : Name := [117,116,102,45,49,54,108,101]
def nUTF16BE : Name := [117,116,102,45,49,54,98,101]

def ianaNow (n : Name) : Option Name := ianaNameOf Gen.supported Gen.labels n

def tablesNow : Tables Name where
  supported := Gen.supported
  ascii := nASCII
  utf8 := nUTF8
  utf16le := nUTF16LE
  utf16be := nUTF16BE
  isMultiByte := fun e => Gen.multiByte.contains e
  similar := similarOf Gen.similar
  marks := Gen.marks
  ianaName := ianaNow
  declared := declaredOf ianaNow 4096
  tooBig := Gen.tooBig
  maxProcessed := Gen.maxProcessed

/-- the codec `decode(.., name, ..)` resolves to: `encoding_from_whatwg_label(name)` -/
def codecNow (e : Name) : Option Codec :=
  match lookupName Gen.labelCodec (normLabel e) with
  | none => none
  | some id =>
    if id = nUTF8 then some .utf8
    else if id = nUTF16LE then some (.utf16 true)
    else if id = nUTF16BE then some (.utf16 false)
    else match lookupName Gen.sbTables id with
      | some tbl => some (.table tbl)
      | none => some (.external id)

/-- finite oracle: answers recorded from the real functions -/
structure Oracle where
  dec   : List ((Name × Bytes × Bool) × Option Text) := []
  mess  : List ((Text × Int) × F32) := []
  coh   : List ((Text × Int × List Name) × Option (List (Name × F32))) := []
  merge : List (List (List (Name × Int)) × List (Name × F32)) := []
  /-- per-character Unicode facts (full mode of the driver): cp, flag word, de-accented cp,
      is_alphabetic, is_accentuated, to_lowercase -/
  chars : List (Nat × Nat × Nat × Bool × Bool × List Nat) := []

def needO {α} (q : Query) : M α := .error (.need q)

def decodeNow (o : Oracle) (chunk : Bool) (e : Name) (sl : Bytes) : M (Option Text) :=
  match codecNow e with
  | none => .ok none
  | some c =>
    match c.strict with
    | some f =>
      match decodeStrict f (Gen.multiByte.contains e) chunk sl with
      | .ok t => .ok (some t)
      | .error _ => .ok none
    | none =>
      match o.dec.find? (fun p => p.1 == (e, sl, chunk)) with
      | some p => .ok p.2
      | none => needO (.decode e sl chunk)

def keyOfCoh (l : List (Name × F32)) : List (Name × Int) := l.map (fun p => (p.1, p.2.key))

def worldNow (o : Oracle) : World Name Name where
  decode := decodeNow o false
  decodeChunk := decodeNow o true
  mess := fun t thr =>
    match o.mess.find? (fun p => p.1 == (t, thr.key)) with
    | some p => .ok p.2
    | none => needO (.mess t thr.key)
  coh := fun t thr langs =>
    match o.coh.find? (fun p => p.1 == (t, thr.key, langs)) with
    | some p => .ok p.2
    | none => needO (.coh t thr.key langs)
  merge := fun xs => .ok (mergeModel xs)   -- `merge_coherence_ratios` is inside the model (Cd.lean)
  target := fun e =>
    match lookupName Gen.targetLanguages e with
    | some l => .ok l
    | none => needO (.target e)

def nEnglish : Name := [69,110,103,108,105,115,104]
def nUnknown : Name := [85,110,107,110,111,119,110]

/-- `most_probably_language()` with the dumped encoding → languages table -/
def mostProbableNow (m : Match Name Name) : Name :=
  mostProbable nEnglish nUnknown nASCII (fun e => (lookupName Gen.targetLanguages e).getD []) m

/-- comparison of the keyed pairs the container sorts: `is_less` = `Ord::cmp == Less` on the keys -/
def ltPair {E L : Type} (a b : Match.Key × Match E L) : Bool := Match.ltKey a.1 b.1

/-- a key that is preferred to every *other* key of the list (there is at most one) -/
def winningKey (keys : List Match.Key) : Option Match.Key :=
  keys.find? (fun k => keys.all (fun k' => k' == k || (Match.ltKey k k' && !Match.ltKey k' k)))

/-- a key every *other* key of the list is preferred to -/
def losingKey (keys : List Match.Key) : Option Match.Key :=
  keys.find? (fun k => keys.all (fun k' => k' == k || (Match.ltKey k' k && !Match.ltKey k k')))

/-- the ranking guarantee of the property, as a check on a sorted key list -/
def rankingOk (keys sortedKeys : List Match.Key) : Bool :=
  (match winningKey keys with | some k => sortedKeys.head? == some k | none => true) &&
  (match losingKey keys with | some k => sortedKeys.getLast? == some k | none => true)

/-- the container's sort, `items.sort_unstable()`: the comparison keys (chaos, coherence, multi-byte
    usage) are computed once per element, then `sort_unstable` runs on (key, element) pairs with
    `is_less` = `Ord::cmp == Less` on the keys — the same comparisons the Rust code makes.
    Above 20 elements the modelled ipnsort is not proved to rank correctly for the (non-transitive)
    match comparison; its result is therefore *validated inside the model* against the ranking
    guarantee (a key preferred to all others is first, a key all others are preferred to is last) and
    plain insertion sort answers otherwise. That the validated path is the one std takes – i.e. that the
    fallback never fires – is what the exact correspondence on container histories checks. -/
def sortMatches {E L : Type} (l : List (Match E L)) : List (Match E L) :=
  let pairs := l.map (fun m => (m.key, m))
  let r := sortUnstable ltPair pairs
  if rankingOk (pairs.map (·.1)) (r.map (·.1)) then r.map (·.2) else (insertionSort ltPair pairs).map (·.2)

end Charset
