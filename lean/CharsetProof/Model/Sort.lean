/-
  Model of `slice::sort_unstable` (toolchain of /repo) for an arbitrary — possibly non-transitive —
  `is_less`.  `len ≤ 20`: `insertion_sort_shift_left(v, 1, is_less)`.  Larger: ipnsort (see
  `SortLarge.lean`), plugged in through the `large` parameter so that small-list theorems do not
  depend on it.
-/
import CharsetProof.Model.Prim
namespace Charset

variable {α : Type}

/-- `insert_tail`: `x` is the new tail element, `rev` the already sorted prefix *reversed*
    (nearest neighbour first).  Shifts `x` left while `lt x prev`. Returns the new prefix reversed. -/
def insertTailRev (lt : α → α → Bool) (x : α) : List α → List α
  | [] => [x]
  | p :: ps => if lt x p then p :: insertTailRev lt x ps else x :: p :: ps

/-- insertion sort, processing elements left to right (`for i in 1..len { insert_tail }`);
    accumulator is the sorted prefix reversed -/
def insertionSortAux (lt : α → α → Bool) : List α → List α → List α
  | acc, [] => acc.reverse
  | acc, x :: xs => insertionSortAux lt (insertTailRev lt x acc) xs

def insertionSort (lt : α → α → Bool) (l : List α) : List α := insertionSortAux lt [] l

/-- `SMALL_SORT_GENERAL_THRESHOLD`-independent cutoff of `sort_unstable`: `len <= 20` → insertion sort -/
def insertionCutoff : Nat := 20

def sortUnstableWith (large : (α → α → Bool) → List α → List α) (lt : α → α → Bool) (l : List α) : List α :=
  if l.length ≤ insertionCutoff then insertionSort lt l else large lt l

end Charset
