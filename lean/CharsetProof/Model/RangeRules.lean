/-
  Model of `utils::is_suspiciously_successive_range` and `utils::is_unicode_range_secondary`:
  pure string rules over the names of the Unicode block table.  Both the block table and the
  secondary keywords are dumped from the compiled crate (T1); the correspondence compares the
  model with the real function on *every* pair of table rows (the domain is finite).
-/
import CharsetProof.Model.Ranges
import CharsetProof.Generated.TablesNow
namespace Charset

/-- `haystack.contains(needle)` on strings -/
def containsSub (s pat : Name) : Bool :=
  match s with
  | [] => pat.isEmpty
  | _ :: rest => pat.isPrefixOf s || containsSub rest pat

def sLatin : Name := [76,97,116,105,110]
def sEmoticons : Name := [69,109,111,116,105,99,111,110,115]
def sCombining : Name := [67,111,109,98,105,110,105,110,103]
def sHiragana : Name := [72,105,114,97,103,97,110,97]
def sKatakana : Name := [75,97,116,97,107,97,110,97]
def sCJK : Name := [67,74,75]
def sHangul : Name := [72,97,110,103,117,108]
def sPunctuation : Name := [80,117,110,99,116,117,97,116,105,111,110]
def sForms : Name := [70,111,114,109,115]
def sBasicLatin : Name := [66,97,115,105,99,32,76,97,116,105,110]

/-- `split_whitespace` for names of the block table (only U+0020 occurs) -/
def splitWs (s : Name) : List Name :=
  let rec go (cur : Name) (acc : List Name) : Name → List Name
    | [] => if cur.isEmpty then acc.reverse else (cur.reverse :: acc).reverse
    | c :: cs => if c = 32 then (if cur.isEmpty then go [] acc cs else go [] (cur.reverse :: acc) cs)
                 else go (c :: cur) acc cs
  go [] [] s

/-- `is_suspiciously_successive_range(range_a, range_b)` -/
def suspRange (secondary : List Name) (ra rb : Option Name) : Bool :=
  match ra, rb with
  | some a, some b =>
    if a = b || (containsSub a sLatin && containsSub b sLatin)
        || (containsSub a sEmoticons || containsSub b sEmoticons) then false
    else if (containsSub a sLatin || containsSub b sLatin) && (containsSub a sCombining || containsSub b sCombining)
    then false
    else if (splitWs a).any (fun w => (splitWs b).contains w && !secondary.contains w) then false
    else
      let jpA := a = sHiragana || a = sKatakana
      let jpB := b = sHiragana || b = sKatakana
      let cjk := containsSub a sCJK || containsSub b sCJK
      let hangul := containsSub a sHangul || containsSub b sHangul
      let punctForms := containsSub a sPunctuation || containsSub a sForms || containsSub b sPunctuation || containsSub b sForms
      let basicLatin := a = sBasicLatin || b = sBasicLatin
      if (jpA && jpB) || (jpA && cjk) || (jpB && cjk) || (cjk && hangul) || (cjk && punctForms) || (hangul && basicLatin)
      then false else true
  | _, _ => true

/-- `is_unicode_range_secondary` -/
def rangeSecondary (secondary : List Name) (r : Name) : Bool := secondary.any (containsSub r)

/-- range id used by the mess-detector model: 0 = none, else 1 + row index -/
def rangeNameOfId (tbl : List (Name × Nat × Nat)) (id : Nat) : Option Name :=
  if id = 0 then none else (tbl[id - 1]?).map (·.1)

def rangeIdOf (tbl : List (Name × Nat × Nat)) (c : Nat) : Nat :=
  match tbl.findIdx? (fun r => decide (r.2.1 ≤ c ∧ c ≤ r.2.2)) with
  | some i => i + 1
  | none => 0

def suspNow (a b : Nat) : Bool :=
  suspRange Gen.secondaryKeywords (rangeNameOfId Gen.unicodeRanges a) (rangeNameOfId Gen.unicodeRanges b)

end Charset
