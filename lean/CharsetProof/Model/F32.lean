/-
  Exact soft-float model of IEEE-754 binary32 / binary64 (round-to-nearest-even), in `Nat`/`Int`
  arithmetic only, so that the kernel can evaluate it and `omega` can reason about comparisons.

  A float is represented by its *ordered key*: for a non-negative float the integer value of its
  bit pattern (which is monotone in the value), for a negative float minus that; `+0` and `-0`
  share key 0 (the crate only ever compares them with `==`/`OrderedFloat`, for which they are equal).
  `inf` has key `infKey`, NaN has key `infKey + 1` – so the `Int` order on keys is exactly
  `ordered_float::OrderedFloat`'s total order (NaN greatest, equal to itself).
-/
import CharsetProof.Model.Prim
namespace Charset

structure Fmt where
  mbits : Nat      -- explicit mantissa bits: 23 / 52
  qmin  : Int      -- exponent of the smallest subnormal: -149 / -1074
  infKey : Nat     -- bit pattern of +inf

def fmt32 : Fmt := ⟨23, -149, 0x7f800000⟩
def fmt64 : Fmt := ⟨52, -1074, 0x7ff0000000000000⟩

/-- `num ≥ den * 2^E` for `E : Int` -/
def ge2pow (num den : Nat) (E : Int) : Bool :=
  if 0 ≤ E then decide (den * 2 ^ E.toNat ≤ num) else decide (den ≤ num * 2 ^ (-E).toNat)

/-- floor (log2 (num/den)) for num, den > 0 -/
def floorLog2 (num den : Nat) : Int :=
  let e0 : Int := (Nat.log2 num : Int) - (Nat.log2 den : Int)
  if ge2pow num den e0 then e0 else e0 - 1

/-- key of the float nearest (ties to even) to the positive rational `num/den` -/
def roundPos (f : Fmt) (num den : Nat) : Nat :=
  if num = 0 ∨ den = 0 then 0 else
  let E := floorLog2 num den
  let q : Int := max (E - f.mbits) f.qmin
  let n' := if 0 ≤ q then num else num * 2 ^ (-q).toNat
  let d' := if 0 ≤ q then den * 2 ^ q.toNat else den
  let m := n' / d'
  let r := n' % d'
  let m' := if d' < 2 * r ∨ (2 * r = d' ∧ m % 2 = 1) then m + 1 else m
  let key := (q - f.qmin).toNat * 2 ^ f.mbits + m'
  if f.infKey ≤ key then f.infKey else key

/-- exact value of a finite non-negative key as `m * 2^e` -/
def decodeKey (f : Fmt) (k : Nat) : Nat × Int :=
  let e := k / 2 ^ f.mbits
  let fr := k % 2 ^ f.mbits
  if e = 0 then (fr, f.qmin) else (2 ^ f.mbits + fr, f.qmin + (e : Int) - 1)

/-- round the exact dyadic `m * 2^e` (m ≥ 0) -/
def roundDy (f : Fmt) (m : Nat) (e : Int) : Nat :=
  if 0 ≤ e then roundPos f (m * 2 ^ e.toNat) 1 else roundPos f m (2 ^ (-e).toNat)

structure Fl (f : Fmt) where
  key : Int
  deriving DecidableEq, Repr

namespace Fl
variable {f : Fmt}

def nan (f : Fmt) : Fl f := ⟨f.infKey + 1⟩
def inf (f : Fmt) : Fl f := ⟨f.infKey⟩
def zero : Fl f := ⟨0⟩
def isNaN (a : Fl f) : Bool := a.key.natAbs > f.infKey
def isInf (a : Fl f) : Bool := a.key.natAbs = f.infKey
def isFinite (a : Fl f) : Bool := a.key.natAbs < f.infKey
def neg (a : Fl f) : Fl f := if a.isNaN then a else ⟨-a.key⟩
def abs (a : Fl f) : Fl f := if a.isNaN then a else ⟨a.key.natAbs⟩

/-- signed exact value `(m, e)` of a finite float -/
def toDy (a : Fl f) : Int × Int :=
  let (m, e) := decodeKey f a.key.natAbs
  (if a.key < 0 then -(m : Int) else m, e)

def ofSigned (f : Fmt) (m : Int) (e : Int) : Fl f :=
  let k := roundDy f m.natAbs e
  ⟨if m < 0 then -(k : Int) else k⟩

def ofNat (f : Fmt) (n : Nat) : Fl f := ⟨roundPos f n 1⟩

/-- nearest float to `num/den` -/
def ofRat (f : Fmt) (num den : Nat) : Fl f := ⟨roundPos f num den⟩

def add (a b : Fl f) : Fl f :=
  if a.isNaN ∨ b.isNaN then nan f
  else if a.isInf ∧ b.isInf then (if a.key = b.key then a else nan f)
  else if a.isInf then a else if b.isInf then b
  else
    let (ma, ea) := a.toDy
    let (mb, eb) := b.toDy
    let e := min ea eb
    ofSigned f (ma * 2 ^ (ea - e).toNat + mb * 2 ^ (eb - e).toNat) e

def sub (a b : Fl f) : Fl f := add a (neg b)

def mul (a b : Fl f) : Fl f :=
  if a.isNaN ∨ b.isNaN then nan f
  else if a.isInf ∨ b.isInf then
    (if a.key = 0 ∨ b.key = 0 then nan f
     else ⟨if (a.key < 0) = (b.key < 0) then f.infKey else -(f.infKey : Int)⟩)
  else
    let (ma, ea) := a.toDy
    let (mb, eb) := b.toDy
    ofSigned f (ma * mb) (ea + eb)

def div (a b : Fl f) : Fl f :=
  if a.isNaN ∨ b.isNaN then nan f
  else if a.isInf ∧ b.isInf then nan f
  else if a.isInf then ⟨if (a.key < 0) = (b.key < 0) then f.infKey else -(f.infKey : Int)⟩
  else if b.isInf then zero
  else if b.key = 0 then
    (if a.key = 0 then nan f else ⟨if (a.key < 0) then -(f.infKey : Int) else f.infKey⟩)
  else
    let (ma, ea) := a.toDy
    let (mb, eb) := b.toDy
    -- |ma| 2^ea / (|mb| 2^eb)
    let d := ea - eb
    let num := if 0 ≤ d then ma.natAbs * 2 ^ d.toNat else ma.natAbs
    let den := if 0 ≤ d then mb.natAbs else mb.natAbs * 2 ^ (-d).toNat
    let k := roundPos f num den
    ⟨if (a.key < 0) = (b.key < 0) then (k : Int) else -(k : Int)⟩

/-- IEEE `<` (false on NaN) -/
def lt (a b : Fl f) : Bool := !a.isNaN && !b.isNaN && decide (a.key < b.key)
/-- IEEE `<=` (false on NaN) -/
def le (a b : Fl f) : Bool := !a.isNaN && !b.isNaN && decide (a.key ≤ b.key)
def gt (a b : Fl f) : Bool := lt b a
def ge (a b : Fl f) : Bool := le b a

/-- `OrderedFloat::cmp` -/
def ocmp (a b : Fl f) : Ordering := compare a.key b.key

end Fl

abbrev F32 := Fl fmt32
abbrev F64 := Fl fmt64

/-- `f64 as f32` -/
def F64.toF32 (a : F64) : F32 :=
  if a.isNaN then Fl.nan fmt32
  else if a.isInf then ⟨if a.key < 0 then -(fmt32.infKey : Int) else fmt32.infKey⟩
  else let (m, e) := a.toDy; Fl.ofSigned fmt32 m e

/-- f32 literal nearest to the decimal `num/den` (how rustc parses `0.1`, `0.2`, …) -/
def F32.lit (num den : Nat) : F32 := Fl.ofRat fmt32 num den
def F64.lit (num den : Nat) : F64 := Fl.ofRat fmt64 num den

/-- `f32::EPSILON` = 2^-23 -/
def F32.epsilon : F32 := Fl.ofRat fmt32 1 (2 ^ 23)

/-- f32 bit pattern (sign-magnitude) of a key, for printing -/
def Fl.bits32 (a : F32) : Nat := if a.key < 0 then 0x80000000 + a.key.natAbs else a.key.natAbs
/-- key from an f32 bit pattern; NaNs collapse to the canonical NaN key; -0 ↦ 0 -/
def F32.ofBits (b : Nat) : F32 :=
  let mag := b % 0x80000000
  if mag > 0x7f800000 then Fl.nan fmt32
  else ⟨if b ≥ 0x80000000 then -(mag : Int) else mag⟩

end Charset
