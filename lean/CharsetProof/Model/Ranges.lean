/-
  Model of `utils::unicode_range`, `utils::range_scan` and `CharsetMatch::unicode_ranges()`.
  `range_scan` collects range names in a hash set (iteration order unspecified), `unicode_ranges()`
  sorts them: because the names are distinct, *every* correct sort yields the same list, so the model
  uses insertion sort with the string order (byte-wise UTF-8 order = code-point-wise order).
-/
import CharsetProof.Model.Sort
namespace Charset

/-- `unicode_range(ch)`: first table row whose inclusive range contains the code point -/
def unicodeRangeOf (tbl : List (Name × Nat × Nat)) (c : Nat) : Option Name :=
  (tbl.find? (fun r => decide (r.2.1 ≤ c ∧ c ≤ r.2.2))).map (·.1)

/-- keep the first occurrence of every element -/
def dedup : List Name → List Name
  | [] => []
  | x :: xs => x :: (dedup xs).filter (fun y => y != x)

/-- `range_scan(text)` as a duplicate-free list (first appearance order) -/
def rangeScan (tbl : List (Name × Nat × Nat)) (t : Text) : List Name :=
  dedup (t.filterMap (unicodeRangeOf tbl))

/-- `String::cmp` on names -/
def nameLt (a b : Name) : Bool := decide (a < b)

/-- `CharsetMatch::unicode_ranges()` (of the decoded payload; empty when there is none) -/
def unicodeRangesOf (tbl : List (Name × Nat × Nat)) (t : Option Text) : List Name :=
  insertionSort nameLt (rangeScan tbl (t.getD []))

end Charset
