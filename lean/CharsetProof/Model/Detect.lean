/-
  Model of `from_bytes` (src/lib.rs 174-600), parametric in `Tables` and `World`.
  Line references are to /repo/src/lib.rs.
-/
import CharsetProof.Model.Entity
namespace Charset

structure Settings where
  steps      : Nat
  chunk      : Nat
  thr        : F32
  langThr    : F32
  incl       : List Name
  excl       : List Name
  preemptive : Bool
  fallback   : Bool
  /-- a trace-level logger is installed (arguments of `trace!` are evaluated) -/
  trace      : Bool
  deriving Repr

/-- the documented failure mode: an include/exclude entry that is not a known label -/
inductive Err
  | badInclude (n : Name)
  | badExclude (n : Name)
  deriving DecidableEq, Repr

variable {E L : Type} [DecidableEq E]

/-- 181-212: canonicalise a filter list, failing on the first unknown entry -/
def canonList (iana : Name → Option E) : List Name → Except Name (List E)
  | [] => .ok []
  | n :: ns =>
    match iana n with
    | none => .error n
    | some e =>
      match canonList iana ns with
      | .error x => .error x
      | .ok es => .ok (e :: es)

/-- 222-236: window normalisation -/
def normWindow (len steps chunk : Nat) : Nat × Nat :=
  let sc : Nat × Nat := if len ≤ chunk * steps then (1, len) else (steps, chunk)
  if sc.1 > 1 ∧ len / sc.1 < sc.2 then (sc.1, len / sc.1) else sc

/-- `identify_sig_or_bom` with the map iterated in the order of `marks` -/
def sigOf (marks : List (E × Bytes)) (b : Bytes) : Option (E × Bytes) :=
  marks.find? (fun em => startsWith b em.2)

/-- 256-283 -/
def prioritized (T : Tables E) (b : Bytes) (preemptive : Bool) : List E :=
  (if preemptive then (T.declared b).toList else []) ++ ((sigOf T.marks b).map (·.1)).toList
    ++ [T.ascii, T.utf8]

/-- 288-291: move `pe` to the front if present -/
def rotateFront (pe : E) (l : List E) : List E :=
  if l.contains pe then pe :: l.erase pe else l

/-- 286-292 -/
def probeOrder (supported : List E) (prio : List E) : List E :=
  prio.foldr rotateFront supported

/-- what the loop reads besides the encoding under test -/
structure Ctx (E : Type) where
  b        : Bytes
  steps    : Nat            -- normalised
  chunk    : Nat            -- normalised
  thr      : F32
  langThr  : F32
  sig      : Option (E × Bytes)
  tooLarge : Bool
  prio     : List E
  declared : Option E
  fallback : Bool
  trace    : Bool

/-- `CharsetMatch::new`: keep the payload decoded by the loop, otherwise (lazy path) decode the
    whole input in chunk mode and strip a leading U+FEFF -/
def stripFeff (t : Text) : Text :=
  match t with
  | 0xFEFF :: r => r
  | _ => t

def mkMatch (W : World E L) (b : Bytes) (e : E) (chaos : F32) (bom : Bool) (cohs : List (L × F32))
    (payload : Option Text) : M (Match E L) :=
  match payload with
  | some t => .ok ⟨b, e, chaos, cohs, bom, [], some t⟩
  | none =>
    match W.decodeChunk e b with
    | .error s => .error s
    | .ok r => .ok ⟨b, e, chaos, cohs, bom, [], r.map stripFeff⟩

/-- 397: `(start..stop).step_by(step)` for `step ≥ 1` -/
def offsets (start stop step : Nat) : List Nat :=
  (List.range ((stop - start + step - 1) / step)).map (fun i => start + i * step)

structure ChunkAcc where
  chunks   : List Text := []
  ratios   : List F32 := []
  early    : Nat := 0
  lazyHard : Bool := false

def isAsciiText (t : Text) : Bool := t.all (· < 128)

/-- `is_invalid_chunk` on a decoded chunk: "ascii" additionally requires ASCII-only text -/
def validChunk (T : Tables E) (e : E) (ch : Text) : Option Text :=
  if e = T.ascii ∧ !isAsciiText ch then none else some ch

/-- 403-418 + `is_invalid_chunk`: the text of the chunk at `off`, `none` if invalid -/
def chunkAt (W : World E L) (T : Tables E) (c : Ctx E) (e : E) (payload : Option Text) (seqLen off : Nat) :
    M (Option Text) :=
  match payload with
  | some t =>
    .ok (validChunk T e ((t.drop off).take c.chunk))
  | none =>
    match sliceF 412 c.b off (min (off + c.chunk) seqLen) with
    | .error s => .error s
    | .ok sl =>
      match W.decode e sl with
      | .error s => .error s
      | .ok none => .ok none
      | .ok (some ch) => .ok (validChunk T e ch)

/-- 439-441 -/
def earlyNext (thr r : F32) (early : Nat) : Nat := if Fl.ge r thr then early + 1 else early

/-- 402-445 -/
def chunkLoop (W : World E L) (T : Tables E) (c : Ctx E) (e : E) (payload : Option Text) (seqLen maxGaveUp : Nat) :
    List Nat → ChunkAcc → M ChunkAcc
  | [], acc => .ok acc
  | off :: offs, acc =>
    match chunkAt W T c e payload seqLen off with
    | .error s => .error s
    | .ok none => .ok { acc with early := maxGaveUp, lazyHard := true }
    | .ok (some t) =>
      match W.mess t c.thr with
      | .error s => .error s
      | .ok r =>
        if maxGaveUp ≤ earlyNext c.thr r acc.early then
          .ok { chunks := acc.chunks ++ [t], ratios := acc.ratios ++ [r],
                early := earlyNext c.thr r acc.early, lazyHard := acc.lazyHard }
        else chunkLoop W T c e payload seqLen maxGaveUp offs
          { chunks := acc.chunks ++ [t], ratios := acc.ratios ++ [r],
            early := earlyNext c.thr r acc.early, lazyHard := acc.lazyHard }

/-- 470-473 -/
def meanRatio (ratios : List F32) : F32 :=
  if ratios.isEmpty then Fl.zero
  else Fl.div (ratios.foldl Fl.add Fl.zero) (Fl.ofNat fmt32 ratios.length)

/-- 515-525: coherence of every analysed chunk (errors dropped) -/
def cohAll (W : World E L) (langThr : F32) (langs : List L) : List Text → M (List (List (L × F32)))
  | [] => .ok []
  | t :: ts =>
    match W.coh t langThr langs with
    | .error s => .error s
    | .ok r =>
      match cohAll W langThr langs ts with
      | .error s => .error s
      | .ok rs => .ok (match r with | some x => x :: rs | none => rs)

/-- result of probing one encoding (316-545), not yet applied to the loop state -/
inductive Verdict (E L : Type)
  | needsBom
  | hardFail
  | similarSkip (f : E)
  | softFail (fallbackEntry : Option (Match E L))
  | accepted (m : Match E L)

/-- what the first stage of a probe establishes (316-367) -/
structure Prepared where
  bomHere  : Bool
  startIdx : Nat
  lazy     : Bool
  /-- the strictly decoded payload; `none` on the lazy path (only test-decoded) -/
  payload  : Option Text

inductive Stage1 (E : Type)
  | needsBom
  | hardFail
  | similarSkip (f : E)
  | go (p : Prepared)

def bomHereOf (c : Ctx E) (e : E) : Bool := (c.sig.map (·.1)) == some e

def startIdxOf (c : Ctx E) (e : E) : Nat :=
  if bomHereOf c e then (match c.sig with | some s => s.2.length | none => 0) else 0

def lazyOf (T : Tables E) (c : Ctx E) (e : E) : Bool := c.tooLarge && !T.isMultiByte e

def endIdxOf (T : Tables E) (c : Ctx E) (e : E) : Nat :=
  if lazyOf T c e then T.maxProcessed else c.b.length

def payloadOf (T : Tables E) (c : Ctx E) (e : E) (t0 : Text) : Option Text :=
  if lazyOf T c e then none else some t0

def needsBomCond (T : Tables E) (c : Ctx E) (e : E) : Bool :=
  !bomHereOf c e && (decide (e = T.utf16le) || decide (e = T.utf16be))

/-- 316-367: BOM requirement, fast strict pre-check, similarity skip -/
def probePrepare (W : World E L) (T : Tables E) (c : Ctx E) (soft : List E) (e : E) : M (Stage1 E) :=
  if needsBomCond T c e then .ok .needsBom else
  match sliceF 341 c.b (startIdxOf c e) (endIdxOf T c e) with
  | .error s => .error s
  | .ok sl =>
  match W.decode e sl with
  | .error s => .error s
  | .ok none => .ok .hardFail
  | .ok (some t0) =>
  match soft.find? (fun f => T.similar e f) with
  | some f => .ok (.similarSkip f)
  | none => .ok (.go { bomHere := bomHereOf c e, startIdx := startIdxOf c e, lazy := lazyOf T c e,
                       payload := payloadOf T c e t0 })

def maxGaveUpOf (c : Ctx E) : Nat := max 2 (c.steps / 4)

def seqLenOf (c : Ctx E) (p : Prepared) : Nat :=
  match p.payload with | some t => t.length | none => c.b.length

/-- 370-445: the sampled chunks and their mess ratios -/
def startOffOf (p : Prepared) : Nat := if p.bomHere ∧ p.payload.isNone then p.startIdx else 0

def probeChunks (W : World E L) (T : Tables E) (c : Ctx E) (e : E) (p : Prepared) : M ChunkAcc :=
  match divF 397 (seqLenOf c p) c.steps with
  | .error s => .error s
  | .ok q => chunkLoop W T c e p.payload (seqLenOf c p) (maxGaveUpOf c)
               (offsets (startOffOf p) (seqLenOf c p) (max q 1)) {}

/-- 447-467: remainder of a lazily decoded payload; `true` = hard failure -/
def asciiInvalid (T : Tables E) (e : E) (t : Text) : Bool := decide (e = T.ascii) && !isAsciiText t

def probeRemainder (W : World E L) (T : Tables E) (c : Ctx E) (e : E) (p : Prepared) (acc : ChunkAcc) : M Bool :=
  if (!acc.lazyHard && p.lazy) = true then
    match sliceF 451 c.b T.maxProcessed c.b.length with
    | .error s => .error s
    | .ok sl2 =>
      match W.decode e sl2 with
      | .error s => .error s
      | .ok none => .ok true
      | .ok (some t2) => .ok (asciiInvalid T e t2)
  else .ok false

def softFailCond (c : Ctx E) (acc : ChunkAcc) : Bool :=
  Fl.ge (meanRatio acc.ratios) c.thr || decide (maxGaveUpOf c ≤ acc.early)

/-- 485-503: the fallback entry prepared on a soft failure -/
def fallbackCond (c : Ctx E) (e : E) (acc : ChunkAcc) : Bool :=
  c.fallback && !acc.lazyHard && c.prio.contains e

def probeSoft (W : World E L) (c : Ctx E) (e : E) (p : Prepared) (acc : ChunkAcc) : M (Verdict E L) :=
  if fallbackCond c e acc then
    match mkMatch W c.b e c.thr false [] p.payload with
    | .error s => .error s
    | .ok fb => .ok (.softFail (some fb))
  else .ok (.softFail none)

/-- 512-545: coherence of the analysed chunks and the resulting match -/
def cdsOf (W : World E L) (T : Tables E) (c : Ctx E) (e : E) (acc : ChunkAcc) : M (List (List (L × F32))) :=
  if e = T.ascii then .ok [] else
    match W.target e with
    | .error s => .error s
    | .ok langs => cohAll W c.langThr langs acc.chunks

def probeAccept (W : World E L) (T : Tables E) (c : Ctx E) (e : E) (p : Prepared) (acc : ChunkAcc) :
    M (Verdict E L) :=
  match cdsOf W T c e acc with
  | .error s => .error s
  | .ok cdl =>
  match W.merge cdl with
  | .error s => .error s
  | .ok merged =>
  match mkMatch W c.b e (meanRatio acc.ratios) p.bomHere merged p.payload with
  | .error s => .error s
  | .ok m => .ok (.accepted m)

/-- 316-545. Reads the loop state only through `soft` (similarity skip). -/
def probe (W : World E L) (T : Tables E) (c : Ctx E) (soft : List E) (e : E) : M (Verdict E L) :=
  match probePrepare W T c soft e with
  | .error s => .error s
  | .ok .needsBom => .ok .needsBom
  | .ok .hardFail => .ok .hardFail
  | .ok (.similarSkip f) => .ok (.similarSkip f)
  | .ok (.go p) =>
  match probeChunks W T c e p with
  | .error s => .error s
  | .ok acc =>
  match probeRemainder W T c e p acc with
  | .error s => .error s
  | .ok true => .ok .hardFail
  | .ok false =>
  if softFailCond c acc then probeSoft W c e p acc else probeAccept W T c e p acc

structure LoopState (E L : Type) where
  soft    : List E := []
  fbAscii : Option (Match E L) := none
  fbU8    : Option (Match E L) := none
  fbSpec  : Option (Match E L) := none
  results : List (Match E L) := []

/-- 306-315 -/
def allowed (incl excl : List E) (e : E) : Bool :=
  (incl.isEmpty || incl.contains e) && !excl.contains e

/-- 547-548 -/
def exitCond (c : Ctx E) (e : E) (mean : F32) : Bool :=
  (Fl.lt mean (F32.lit 1 10) && c.prio.contains e) || ((c.sig.map (·.1)) == some e)

/-- outcome of the loop: early exit with a single match, or the final state -/
inductive Outcome (E L : Type)
  | exit (m : Match E L)
  | done (st : LoopState E L)

/-- 476-503: bookkeeping after a soft failure -/
def softUpdate (T : Tables E) (c : Ctx E) (st : LoopState E L) (e : E) (fb : Option (Match E L)) :
    LoopState E L :=
  match fb with
  | none => { st with soft := st.soft ++ [e] }
  | some entry =>
    if c.declared = some e then { st with soft := st.soft ++ [e], fbSpec := some entry }
    else if e = T.ascii then { st with soft := st.soft ++ [e], fbAscii := some entry }
    else { st with soft := st.soft ++ [e], fbU8 := some entry }

/-- 554-559: `results.get_by_encoding(e)` for a supported `e` -/
def findByCand (items : List (Match E L)) (e : E) : Option (Match E L) :=
  items.find? (fun x => x.cands.contains e)

/-- 305-561 -/
def detectLoop (W : World E L) (T : Tables E) (sort : Sorter E L) (c : Ctx E) (incl excl : List E) :
    List E → LoopState E L → M (Outcome E L)
  | [], st => .ok (.done st)
  | e :: es, st =>
    if !allowed incl excl e then detectLoop W T sort c incl excl es st else
    match probe W T c st.soft e with
    | .error s => .error s
    | .ok .needsBom => detectLoop W T sort c incl excl es st
    | .ok .hardFail => detectLoop W T sort c incl excl es st
    | .ok (.similarSkip _) => detectLoop W T sort c incl excl es st
    | .ok (.softFail fb) => detectLoop W T sort c incl excl es (softUpdate T c st e fb)
    | .ok (.accepted m) =>
      if exitCond c e m.chaos then
        match findByCand (append sort T.tooBig st.results m) e with
        | none => fault .entryMissing
        | some x => .ok (.exit x)
      else detectLoop W T sort c incl excl es { st with results := append sort T.tooBig st.results m }

/-- 564-583 -/
def pickFallback (st : LoopState E L) : Option (Match E L) :=
  match st.fbSpec, st.fbU8, st.fbAscii with
  | some s, _, _ => some s
  | none, some u, none => some u
  | none, some u, some a => if u.text != a.text then some u else some a
  | none, none, some a => some a
  | none, none, none => none

/-- 222-283: the loop context of an input under (canonicalised) settings -/
def ctxOf (T : Tables E) (b : Bytes) (s : Settings) : Ctx E :=
  { b := b, steps := (normWindow b.length s.steps s.chunk).1, chunk := (normWindow b.length s.steps s.chunk).2,
    thr := s.thr, langThr := s.langThr,
    sig := sigOf T.marks b, tooLarge := decide (T.tooBig < b.length),
    prio := prioritized T b s.preemptive,
    declared := if s.preemptive then T.declared b else none,
    fallback := s.fallback, trace := s.trace }

/-- 564-583 applied to the final loop state -/
def finish (sort : Sorter E L) (tooBig : Nat) (st : LoopState E L) : List (Match E L) :=
  if st.results.isEmpty then
    match pickFallback st with
    | some fb => append sort tooBig st.results fb
    | none => []
  else st.results

/-- `from_bytes`. `Except Err` is the documented error; `M` carries faults/oracle needs. -/
def fromBytes (W : World E L) (T : Tables E) (sort : Sorter E L) (b : Bytes) (s : Settings) :
    M (Except Err (List (Match E L))) :=
  match canonList T.ianaName s.incl with
  | .error n => .ok (.error (.badInclude n))
  | .ok incl =>
  match canonList T.ianaName s.excl with
  | .error n => .ok (.error (.badExclude n))
  | .ok excl =>
  if b.isEmpty then .ok (.ok [Match.default T.utf8]) else
  match detectLoop W T sort (ctxOf T b s) incl excl (probeOrder T.supported (prioritized T b s.preemptive)) {} with
  | .error st => .error st
  | .ok (.exit m) => .ok (.ok [m])
  | .ok (.done st) => .ok (.ok (finish sort T.tooBig st))

end Charset
