/-
  Model of `utils::decode(input, enc, Strict, only_test, is_chunk)` on top of a strict whole-slice
  decoder (the chunk retry loop of utils.rs:228-252, with the per-attempt buffer of the repaired
  code: the output of a failed attempt is discarded).
-/
import CharsetProof.Model.Codec
import CharsetProof.Model.Cjk
namespace Charset

/-- the retry loop: `beginOff`/`endOff` move inwards by one byte per "invalid"/"incomplete" error,
    at most 3 (+1) bytes each side. `fuel` bounds the rounds (≤ 9 are ever needed). -/
def chunkRetry (strict : Bytes → Except ErrKind Text) (input : Bytes) :
    Nat → Nat → Nat → Except ErrKind Text
  | 0, beginOff, endOff => strict ((input.drop beginOff).take (endOff - beginOff))
  | fuel + 1, beginOff, endOff =>
    match strict ((input.drop beginOff).take (endOff - beginOff)) with
    | .ok t => .ok t
    | .error k =>
      let b' := if k = .invalid then beginOff + 1 else beginOff
      let e' := if k = .incomplete then endOff - 1 else endOff
      if e' - b' < 1 ∨ 3 < b' ∨ 3 < input.length - e' then .error k
      else chunkRetry strict input fuel b' e'

/-- `decode(input, enc, Strict, _, is_chunk)`; `isMb` = `is_multi_byte_encoding(enc)` -/
def decodeStrict (strict : Bytes → Except ErrKind Text) (isMb : Bool) (isChunk : Bool) (input : Bytes) :
    Except ErrKind Text :=
  if isChunk ∧ isMb then chunkRetry strict input 16 0 input.length else strict input

def Codec.strict : Codec → Option (Bytes → Except ErrKind Text)
  | .table tbl => some (tableStrict tbl)
  | .utf8 => some utf8Strict
  | .utf16 le => some (utf16Strict le)
  | .external id => Cjk.strictOf id   -- the multi-byte legacy decoders (Model/Cjk.lean); `none` for what is not modelled (hz)

end Charset
