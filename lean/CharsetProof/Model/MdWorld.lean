/-
  The current tree with the mess detector *inside* the model: `worldNow` with its oracle-answered
  `mess` replaced by `Md.messRatio` over the Unicode side `env`.  Texts of 2^64 - 1 characters or more
  (which no address space holds; the plugin counters are `u64`) are outside the model: `need`.
-/
import CharsetProof.Model.Concrete
import CharsetProof.Model.Md
namespace Charset

def messGuarded (env : Md.MdEnv) (t : Text) (thr : F32) : M F32 :=
  if t.length + 1 < 2 ^ 64 then .ok (Md.messRatio env t thr) else .error (.need (.mess t thr.key))

def worldMd (env : Md.MdEnv) (o : Oracle) : World Name Name :=
  { worldNow o with mess := messGuarded env }

end Charset
