/-
  Static data of the crate, as a record.  `Generated/TablesNow.lean` holds the value dumped from the
  freshly compiled crate (tie T1); every structural theorem is proved for *all* `Tables`.
-/
import CharsetProof.Model.F32
namespace Charset

/-- Data of `consts.rs` / `utils.rs` that the detection loop consults. `E` = encoding names. -/
structure Tables (E : Type) where
  /-- `IANA_SUPPORTED`, in order -/
  supported   : List E
  ascii       : E
  utf8        : E
  utf16le     : E
  utf16be     : E
  /-- `is_multi_byte_encoding` -/
  isMultiByte : E → Bool
  /-- `is_cp_similar a b` -/
  similar     : E → E → Bool
  /-- `ENCODING_MARKS` (hash map: iteration order is a parameter of `sig`) -/
  marks       : List (E × Bytes)
  /-- `iana_name` on an arbitrary spelling -/
  ianaName    : Name → Option E
  /-- `any_specified_encoding(bytes, 4096)` -/
  declared    : Bytes → Option E
  /-- `TOO_BIG_SEQUENCE`, `MAX_PROCESSED_BYTES` -/
  tooBig      : Nat
  maxProcessed : Nat

/-- Everything `from_bytes` calls that is not its own control flow.
    Oracle-style fields return `Option`: `none` = "the driver's finite table has no entry";
    theorems about totality assume total worlds. `L` = languages. -/
structure World (E L : Type) where
  /-- `utils::decode(slice, e, Strict, _, is_chunk = false).ok()` -/
  decode      : E → Bytes → M (Option Text)
  /-- `utils::decode(slice, e, Strict, false, is_chunk = true).ok()` (only `CharsetMatch::new`) -/
  decodeChunk : E → Bytes → M (Option Text)
  /-- `md::mess_ratio(text, Some(thr))` -/
  mess        : Text → F32 → M F32
  /-- `cd::coherence_ratio(text, Some(thr), Some(langs)).ok()` -/
  coh         : Text → F32 → List L → M (Option (List (L × F32)))
  /-- `cd::merge_coherence_ratios` -/
  merge       : List (List (L × F32)) → M (List (L × F32))
  /-- `mb_encoding_languages` / `encoding_languages` -/
  target      : E → M (List L)

end Charset
