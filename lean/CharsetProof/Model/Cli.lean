/-
  Model of the `normalizer` command line tool (src/normalizer.rs): argument validation, the per-file
  loop, target naming, writes, report shaping.  The library is a parameter (`detect`), the file
  system a finite map, the interactive confirmation a parameter.
-/
import CharsetProof.Model.Prim
namespace Charset

abbrev Path := Name

structure CliArgs where
  files        : List Path
  alternatives : Bool
  normalize    : Bool
  minimal      : Bool
  replace      : Bool
  force        : Bool
  /-- `0.0 <= threshold <= 1.0` as decided by the float comparison -/
  thresholdOk  : Bool
  deriving Repr

/-- what the tool needs from one library match -/
structure MInfo where
  encoding : Name
  text     : Bytes          -- UTF-8 bytes of `decoded_payload()`
  /-- everything else that is printed (aliases, alternatives, language, alphabets, bom, chaos, coherence) -/
  printed  : List Name
  deriving DecidableEq, Repr

abbrev FS := List (Path × Bytes)

def fsGet (fs : FS) (p : Path) : Option Bytes := (fs.find? (fun e => e.1 == p)).map (·.2)
def fsPut (fs : FS) (p : Path) (b : Bytes) : FS := (p, b) :: fs.filter (fun e => e.1 != p)

structure Entry where
  path        : Path
  encoding    : Option Name
  printed     : List Name
  unicodePath : Option Path
  deriving DecidableEq, Repr

inductive CliError
  | replaceWithoutNormalize
  | forceWithoutReplace
  | thresholdOutOfRange
  | missingFile (p : Path)
  | detection (p : Path)
  deriving DecidableEq, Repr

/-- 95-104: validation, before anything else -/
def validate (a : CliArgs) : Option CliError :=
  if a.replace && !a.normalize then some .replaceWithoutNormalize
  else if !a.replace && a.force then some .forceWithoutReplace
  else if !a.thresholdOk then some .thresholdOutOfRange
  else none

def startsWithUtf (e : Name) : Bool := [117, 116, 102].isPrefixOf e   -- "utf"

/-- index of the last '.' in a file name -/
def lastDot (n : Name) : Option Nat :=
  match (n.reverse.findIdx? (· == 46)) with
  | none => none
  | some i => some (n.length - 1 - i)

/-- 168-176: `<stem>.<encoding>[.<ext>]`, the name being split at its last dot -/
def targetName (file : Name) (enc : Name) : Name :=
  match lastDot file with
  | none => file ++ [46] ++ enc
  | some i => file.take i ++ [46] ++ enc ++ [46] ++ file.drop (i + 1)

/-- split a path into directory prefix (with trailing '/') and file name -/
def splitPath (p : Path) : Path × Name :=
  match (p.reverse.findIdx? (· == 47)) with
  | none => ([], p)
  | some i => (p.take (p.length - i), p.drop (p.length - i))

def targetPath (p : Path) (enc : Name) : Path :=
  let (d, f) := splitPath p
  d ++ targetName f enc

structure LoopSt where
  fs      : FS
  results : List Entry

/-- 113-205 for one input path. `detect` is `from_path` restricted to what matters: `none` = error. -/
def processFile (a : CliArgs) (detect : Bytes → Option (List MInfo)) (confirm : Path → Bool)
    (st : LoopSt) (p : Path) : Except CliError LoopSt :=
  match fsGet st.fs p with
  | none => .error (.missingFile p)
  | some content =>
    match detect content with
    | none => .error (.detection p)
    | some [] =>
      .ok { st with results := st.results ++ [⟨p, none, [], none⟩] }
    | some (best :: rest) =>
      let bestEntry : Entry := ⟨p, some best.encoding, best.printed, none⟩
      let alts : List Entry := if a.alternatives then rest.map (fun m => ⟨p, some m.encoding, m.printed, none⟩) else []
      let results := bestEntry :: (st.results ++ alts)
      if !a.normalize then .ok { st with results := results }
      else if startsWithUtf best.encoding then .ok { st with results := results }
      else
        let target : Option Path :=
          if !a.replace then some (targetPath p best.encoding)
          else if a.force || confirm p then some p
          else none
        match target with
        | none => .ok { st with results := results }
        | some t =>
          let results' := { bestEntry with unicodePath := some t } :: (st.results ++ alts)
          .ok { fs := fsPut st.fs t best.text, results := results' }

def processAll (a : CliArgs) (detect : Bytes → Option (List MInfo)) (confirm : Path → Bool) :
    List Path → LoopSt → Except CliError LoopSt
  | [], st => .ok st
  | p :: ps, st =>
    match processFile a detect confirm st p with
    | .error e => .error e
    | .ok st' => processAll a detect confirm ps st'

inductive Report
  | minimal (lines : List (List (Option Name)))   -- one line per input: encodings of its entries
  | object (e : Entry)
  | array (es : List Entry)
  deriving DecidableEq, Repr

/-- 208-232 -/
def report (a : CliArgs) (results : List Entry) : Report :=
  if a.minimal then .minimal (a.files.map (fun p => (results.filter (fun r => r.path == p)).map (·.encoding)))
  else match results with
    | [e] => .object e
    | es => .array es

/-- the whole tool: exit status 0 with a report, or an error (non-zero exit, nothing on stdout);
    in both cases the resulting file system -/
def runCli (a : CliArgs) (detect : Bytes → Option (List MInfo)) (confirm : Path → Bool) (fs : FS) :
    Except CliError Report × FS :=
  match validate a with
  | some e => (.error e, fs)
  | none =>
    -- the loop writes as it goes: files written before a later failure stay written
    let rec go (ps : List Path) (st : LoopSt) : Except CliError LoopSt × FS :=
      match ps with
      | [] => (.ok st, st.fs)
      | p :: ps' =>
        match processFile a detect confirm st p with
        | .error e => (.error e, st.fs)
        | .ok st' => go ps' st'
    match go a.files ⟨fs, []⟩ with
    | (.error e, fs') => (.error e, fs')
    | (.ok st, fs') => (.ok (report a st.results), fs')

end Charset
