/-
  Model of the public helper `utils::decode(input, enc, trap, only_test, is_chunk)` in all error
  modes, for the modelled codecs. A lossy decode is described by the *events* the crate's raw decoder
  produces: `some cp` for a decoded character, `none` for one trapped problem (one "invalid sequence"
  or the final "incomplete sequence"). `DecoderTrap::Strict` fails at the first problem,
  `Ignore` drops problems, `Replace` writes U+FFFD for each.
-/
import CharsetProof.Model.Decode
namespace Charset

inductive Trap | strict | ignore | replace
  deriving DecidableEq, Repr

/-! ### events of the modelled raw decoders -/

def tableEvents (tbl : List Nat) : Bytes → List (Option Nat)
  | [] => []
  | b :: bs =>
    (match tbl[b]? with
     | none => none
     | some cp => if cp = undefCp then none else some cp) :: tableEvents tbl bs

/-- UTF-8: a reject in the initial state consumes the byte; a reject inside a sequence reports the
    partial sequence and re-examines the offending byte (the crate's "reject with backup") -/
def utf8Events : Nat → U8State → Bytes → List (Option Nat)
  | _, s, [] => if s.needed = 0 then [] else [none]
  | 0, _, _ => []
  | fuel + 1, s, b :: bs =>
    match u8Step s b with
    | .emit cp => some cp :: utf8Events fuel {} bs
    | .more s' => utf8Events fuel s' bs
    | .reject true => none :: utf8Events fuel {} bs
    | .reject false => none :: utf8Events fuel {} (b :: bs)

/-- UTF-16 over code units; `dangling` = an odd trailing byte -/
def utf16EventsUnits (dangling : Bool) : List Nat → List (Option Nat)
  | [] => if dangling then [none] else []
  | u :: us =>
    if 0xD800 ≤ u ∧ u ≤ 0xDBFF then
      match us with
      | [] => [none]                       -- pending high surrogate (+ dangling byte): one finish error
      | u2 :: us2 =>
        if 0xDC00 ≤ u2 ∧ u2 ≤ 0xDFFF then
          some ((u - 0xD800) * 1024 + (u2 - 0xDC00) + 0x10000) :: utf16EventsUnits dangling us2
        else none :: utf16EventsUnits dangling (u2 :: us2)
    else if 0xDC00 ≤ u ∧ u ≤ 0xDFFF then none :: utf16EventsUnits dangling us
    else some u :: utf16EventsUnits dangling us
termination_by us => us.length

def Codec.events : Codec → Option (Bytes → List (Option Nat))
  | .table tbl => some (tableEvents tbl)
  | .utf8 => some (fun b => utf8Events (2 * b.length + 2) {} b)
  | .utf16 le => some (fun b => let r := utf16Units le b; utf16EventsUnits r.2 r.1)
  | .external id => Cjk.eventsOf id

/-- result of the helper: `Err` (the message is not modelled) or the text -/
def applyTrap (trap : Trap) (evs : List (Option Nat)) : Option Text :=
  match trap with
  | .strict => if evs.all Option.isSome then some (evs.filterMap id) else none
  | .ignore => some (evs.filterMap id)
  | .replace => some (evs.map (fun e => e.getD 0xFFFD))

/-- `utils::decode` for a modelled codec. Chunk mode only changes `Strict` on multi-byte encodings
    (utils.rs:236-251); test-only mode runs the same decoder with a writer that discards everything. -/
def decodeHelper (c : Codec) (isMb : Bool) (trap : Trap) (onlyTest isChunk : Bool) (input : Bytes) : Option (Option Text) :=
  match c.events, c.strict with
  | some ev, some st =>
    let r : Option Text :=
      if trap = .strict ∧ isChunk ∧ isMb then
        (match chunkRetry st input 16 0 input.length with | .ok t => some t | .error _ => none)
      else applyTrap trap (ev input)
    some (r.map (fun t => if onlyTest then [] else t))
  | _, _ => none

end Charset
