/-
  Model of the `#[cached]` expansion (cached_proc_macro 0.25, no `sync_writes`):
      lock; v = cache.get(key); unlock;
      if let Some(v) = v { return v.clone() }
      let v = body(args);                 // outside the lock
      lock; cache.set(key, v.clone()); unlock;
      v
  Sequential semantics (`Memo`) and the thread-interleaving semantics (`Conc`, next file).
  The cache is bounded (`SizedCache`, LRU) or unbounded; eviction is an *arbitrary* function that
  returns a sub-collection of the entries – theorems hold for every eviction policy.
-/
import CharsetProof.Model.Prim
namespace Charset

variable {K V : Type} [DecidableEq K]

abbrev CacheEntries (K V : Type) := List (K × V)

def cacheGet (c : CacheEntries K V) (k : K) : Option V := (c.find? (fun p => p.1 == k)).map (·.2)

/-- eviction policy: anything that only drops entries -/
structure Evict (K V : Type) where
  run : CacheEntries K V → CacheEntries K V
  sub : ∀ c p, p ∈ run c → p ∈ c

/-- one memoised call -/
def memoCall (f : K → V) (ev : Evict K V) (c : CacheEntries K V) (k : K) : V × CacheEntries K V :=
  match cacheGet c k with
  | some v => (v, c)
  | none => (f k, ev.run ((k, f k) :: c))

/-- a history of calls, each with its own eviction behaviour (the LRU state is abstracted away) -/
def memoRun (f : K → V) : List (K × Evict K V) → CacheEntries K V → List V × CacheEntries K V
  | [], c => ([], c)
  | (k, ev) :: rest, c =>
    let r := memoCall f ev c k
    let rs := memoRun f rest r.2
    (r.1 :: rs.1, rs.2)

/-- every cached value is what the body computes for its key -/
def CacheOk (f : K → V) (c : CacheEntries K V) : Prop := ∀ p ∈ c, p.2 = f p.1

end Charset
