/-
  Thread-interleaving semantics of *nested* memoised calls over several caches, each with its own mutex –
  the shape of the real crate: a detection calls `mess_ratio` (cache 1), whose body calls the per-character
  classifier (cache 0) once per character; `coherence_ratio` and `encoding_languages` have caches of their
  own.  Every cached function is the `#[cached]` expansion

      lock(c); v = cache[c].get(key); unlock(c);
      if hit return v;
      v = body(key)            // no lock held; the body may make further cached calls
      lock(c); cache[c].set(key, v); unlock(c); return v

  A thread is a stack of such activations.  A schedule is any list of thread indices; a step of a thread
  that waits for a mutex someone else holds leaves the system unchanged.
-/
import CharsetProof.Model.Memo
namespace Charset
namespace Nested

variable {K V : Type} [DecidableEq K]

/-- a cached call: which cache (function) and which key -/
abbrev Call (K : Type) := Nat × K

/-- the memoised functions: the body of `(c, k)` makes the nested cached calls `inner c k` in order and
    combines their results; `val` is what the call returns when nothing is cached (a solution of the
    recursion equation, which exists because the real call graph is acyclic – T2 obligation);
    `cost` bounds the number of steps of an activation (same remark) -/
structure Funs (K V : Type) where
  inner   : Nat → K → List (Call K)
  combine : Nat → K → List V → V
  val     : Nat → K → V
  val_eq  : ∀ c k, val c k = combine c k ((inner c k).map (fun p => val p.1 p.2))
  cost    : Nat → K → Nat
  cost_eq : ∀ c k, cost c k = 6 + ((inner c k).map (fun p => cost p.1 p.2 + 1)).sum

inductive FPC (K V : Type)
  | start                                       -- about to lock for the lookup
  | locked1                                     -- holds the mutex, about to get + unlock
  | body (todo : List (Call K)) (acc : List V)  -- running the body, no mutex held
  | computed (v : V)                            -- about to lock for the insertion
  | locked2 (v : V)                             -- holds the mutex, about to set + unlock

structure Frame (K V : Type) where
  c  : Nat
  k  : K
  pc : FPC K V

structure Thread (K V : Type) where
  root   : Call K
  stack  : List (Frame K V)      -- innermost activation first
  result : Option V

structure Sys (K V : Type) where
  caches  : Nat → CacheEntries K V
  locks   : Nat → Option Nat      -- which thread holds the mutex of cache c
  threads : List (Thread K V)

def holds : FPC K V → Bool
  | .locked1 => true
  | .locked2 _ => true
  | _ => false

def wantsLock : FPC K V → Bool
  | .start => true
  | .computed _ => true
  | _ => false

/-- hand a finished activation's value to the caller (or to the thread, for the outermost one) -/
def deliver (v : V) (rest : List (Frame K V)) (t : Thread K V) : Thread K V :=
  match rest with
  | [] => { t with stack := [], result := some v }
  | p :: ps =>
    match p.pc with
    | .body todo acc => { t with stack := (Frame.mk p.c p.k (.body todo (acc ++ [v]))) :: ps }
    | _ => { t with stack := p :: ps }     -- unreachable: a caller is always inside its body

def setLock (locks : Nat → Option Nat) (c : Nat) (x : Option Nat) : Nat → Option Nat :=
  fun c' => if c' = c then x else locks c'

def setCache (caches : Nat → CacheEntries K V) (c : Nat) (x : CacheEntries K V) : Nat → CacheEntries K V :=
  fun c' => if c' = c then x else caches c'

/-- can the thread take a step? -/
def enabled (locks : Nat → Option Nat) (t : Thread K V) : Bool :=
  match t.stack with
  | [] => false
  | fr :: _ => if wantsLock fr.pc then (locks fr.c).isNone else true

/-- one atomic step of thread `i` -/
def stepThread (F : Funs K V) (ev : Nat → Evict K V) (s : Sys K V) (i : Nat) : Sys K V :=
  match s.threads[i]? with
  | none => s
  | some t =>
    match t.stack with
    | [] => s
    | fr :: rest =>
      let setPc (pc : FPC K V) : Thread K V := { t with stack := (Frame.mk fr.c fr.k pc) :: rest }
      match fr.pc with
      | .start =>
        if (s.locks fr.c).isNone then
          { s with locks := setLock s.locks fr.c (some i), threads := s.threads.set i (setPc .locked1) }
        else s
      | .locked1 =>
        match cacheGet (s.caches fr.c) fr.k with
        | some v => { s with locks := setLock s.locks fr.c none, threads := s.threads.set i (deliver v rest t) }
        | none =>
          { s with locks := setLock s.locks fr.c none,
                   threads := s.threads.set i (setPc (.body (F.inner fr.c fr.k) [])) }
      | .body (call :: todo) acc =>
        let t' : Thread K V :=
          { t with stack := (Frame.mk call.1 call.2 .start) :: (Frame.mk fr.c fr.k (.body todo acc)) :: rest }
        { s with threads := s.threads.set i t' }
      | .body [] acc =>
        { s with threads := s.threads.set i (setPc (.computed (F.combine fr.c fr.k acc))) }
      | .computed v =>
        if (s.locks fr.c).isNone then
          { s with locks := setLock s.locks fr.c (some i), threads := s.threads.set i (setPc (.locked2 v)) }
        else s
      | .locked2 v =>
        { caches := setCache s.caches fr.c ((ev fr.c).run ((fr.k, v) :: s.caches fr.c)),
          locks := setLock s.locks fr.c none,
          threads := s.threads.set i (deliver v rest t) }

def runSchedule (F : Funs K V) (ev : Nat → Evict K V) : List Nat → Sys K V → Sys K V
  | [], s => s
  | i :: is, s => runSchedule F ev is (stepThread F ev s i)

/-- initial system: every thread about to make its outermost call; any (correct) cache contents; all mutexes free -/
def initSys (caches : Nat → CacheEntries K V) (calls : List (Call K)) : Sys K V :=
  { caches := caches, locks := fun _ => none,
    threads := calls.map (fun c => ⟨c, [⟨c.1, c.2, .start⟩], none⟩) }

end Nested
end Charset
