/-
  Line-protocol interpreter (tie T3): one request per line on stdin, one canonical answer line on
  stdout.  The only IO of the development.  Executes exactly the definitions the theorems are about.
-/
import CharsetProof.Model.Concrete
import CharsetProof.Model.SortLarge
import CharsetProof.Model.SortSmall
import CharsetProof.Model.DecodeHelper
import CharsetProof.Model.Cli
import CharsetProof.Model.Cd
import CharsetProof.Model.Md
import CharsetProof.Model.Ranges
import CharsetProof.Model.RangeRules
import CharsetProof.Model.Coh
import CharsetProof.Model.CharFlags
import CharsetProof.Model.WorldFull
import Std.Data.HashMap
namespace Charset.Driver
open Charset

/-! ### field codecs -/

def hexDigit (c : Char) : Option Nat :=
  if '0' ≤ c ∧ c ≤ '9' then some (c.toNat - 48)
  else if 'a' ≤ c ∧ c ≤ 'f' then some (c.toNat - 87)
  else if 'A' ≤ c ∧ c ≤ 'F' then some (c.toNat - 55)
  else none

def unhexAux : List Char → List Nat → Option (List Nat)
  | [], acc => some acc.reverse
  | [_], _ => none
  | a :: b :: r, acc =>
    match hexDigit a, hexDigit b with
    | some x, some y => unhexAux r ((x * 16 + y) :: acc)
    | _, _ => none

def unhex (s : String) : Option (List Nat) :=
  if s = "-" then some [] else unhexAux s.toList []

def hexOfNat (n : Nat) : Char := if n < 10 then Char.ofNat (48 + n) else Char.ofNat (87 + n)
def hex (b : List Nat) : String :=
  if b.isEmpty then "-" else String.ofList (b.flatMap (fun x => [hexOfNat (x / 16), hexOfNat (x % 16)]))

/-- text travels as UTF-8 hex -/
def textOfHex (s : String) : Option Text :=
  match unhex s with
  | none => none
  | some b => match utf8Strict b with | .ok t => some t | .error _ => none
def hexOfText (t : Text) : String := hex (utf8Encode t)

def nameOfAscii (s : String) : Name := nameOfStr s
def asciiOfName (n : Name) : String := strOfName n

/-- `x<hex>` names (arbitrary spelling), `,`-separated, `-` = empty list -/
def parseXNames (s : String) : Option (List Name) :=
  if s = "-" then some [] else
  (s.splitOn ",").mapM (fun p => if p.startsWith "x" then textOfHex (let r := (p.drop 1).toString; if r = "" then "-" else r) else none)

/-- names travel as `x` + hex of their UTF-8 bytes (empty name = `x`) -/
def xhex (n : Name) : String := if n.isEmpty then "" else hex (utf8Encode n)

def f32OfBits (s : String) : Option F32 := s.toNat?.map F32.ofBits

def fnv (t : Text) : Nat :=
  t.foldl (fun h c => ((h ^^^ c) * 0x100000001b3) % 0x10000000000000000) 0xcbf29ce484222325

/-- `Lang=bits,Lang=bits` / `-` -/
def parseCoh (s : String) : Option (List (Name × F32)) :=
  if s = "-" then some [] else
  (s.splitOn ",").mapM (fun p =>
    match p.splitOn "=" with
    | [l, b] => (f32OfBits b).map (fun f => (nameOfAscii l, f))
    | _ => none)
def showCoh (l : List (Name × F32)) : String :=
  if l.isEmpty then "-" else ",".intercalate (l.map (fun p => s!"{asciiOfName p.1}={p.2.bits32}"))
def showCohKeys (l : List (Name × Int)) : String :=
  showCoh (l.map (fun p => (p.1, (⟨p.2⟩ : F32))))

def parseLangs (s : String) : List Name :=
  if s = "-" then [] else (s.splitOn ",").map nameOfAscii
def showLangs (l : List Name) : String :=
  if l.isEmpty then "-" else ",".intercalate (l.map asciiOfName)

/-! ### oracle tokens -/

def sliceRef (input : Bytes) (s : String) : Option Bytes :=
  if s.startsWith "@" then
    match ((s.drop 1).toString.splitOn ":") with
    | [a, b] => match a.toNat?, b.toNat? with
      | some i, some j => some ((input.drop i).take (j - i))
      | _, _ => none
    | _ => none
  else unhex s

def addOracle (input : Bytes) (o : Oracle) (tok : String) : Option Oracle :=
  match tok.splitOn "|" with
  | ["D", enc, sl, ch, res] =>
    match sliceRef input sl with
    | none => none
    | some slice =>
      let r : Option (Option Text) :=
        if res = "E" then some none
        else if res.startsWith "T" then (textOfHex (res.drop 1).toString).map some else none
      r.map (fun r => { o with dec := ((nameOfAscii enc, slice, ch = "1"), r) :: o.dec })
  | ["M", t, thr, v] =>
    match textOfHex t, f32OfBits thr, f32OfBits v with
    | some t, some thr, some v => some { o with mess := ((t, thr.key), v) :: o.mess }
    | _, _, _ => none
  | ["C", t, thr, langs, res] =>
    match textOfHex t, f32OfBits thr with
    | some t, some thr =>
      let r : Option (Option (List (Name × F32))) := if res = "E" then some none else (parseCoh res).map some
      r.map (fun r => { o with coh := ((t, thr.key, parseLangs langs), r) :: o.coh })
    | _, _ => none
  | ["I", cp, fl, base, al, ac, lo] =>
    match cp.toNat?, fl.toNat?, base.toNat?, (if lo = "" then some [] else (lo.splitOn ".").mapM (·.toNat?)) with
    | some cp, some fl, some base, some lo => some { o with chars := (cp, fl, base, al == "1", ac == "1", lo) :: o.chars }
    | _, _, _, _ => none
  | ["G", lists, res] =>
    match (lists.splitOn ";").mapM parseCoh, parseCoh res with
    | some ls, some r => some { o with merge := (ls.map keyOfCoh, r) :: o.merge }
    | _, _ => none
  | _ => none

def showSliceRef (input slice : Bytes) : String :=
  let k := input.length - slice.length
  if input.drop k == slice then s!"@{k}:{input.length}"
  else if input.take slice.length == slice then s!"@0:{slice.length}"
  else hex slice

def showQuery (input : Bytes) : Query → String
  | .decode e sl ch => s!"D|{asciiOfName e}|{showSliceRef input sl}|{if ch then 1 else 0}"
  | .mess t thr => s!"M|{hexOfText t}|{(⟨thr⟩ : F32).bits32}"
  | .coh t thr langs => s!"C|{hexOfText t}|{(⟨thr⟩ : F32).bits32}|{showLangs langs}"
  | .merge xs => s!"G|{";".intercalate (xs.map showCohKeys)}"
  | .target e => s!"L|{asciiOfName e}"

/-! ### canonical output -/

def showText : Option Text → String
  | none => "none"
  | some t => s!"{fnv t}:{t.length}"

def showSubDetail (s : Sub Name Name) : String :=
  let coh := if s.cohs.isEmpty then "-" else ";".intercalate (s.cohs.map (fun p => s!"{asciiOfName p.1}={p.2.bits32}"))
  s!"{s.chaos.bits32}~{if s.bom then 1 else 0}~{showText s.text}~{coh}"

def showMatch (m : Match Name Name) : String :=
  let subs := if m.subs.isEmpty then "-" else ",".intercalate (m.subs.map (fun s => asciiOfName s.enc))
  let subd := if m.subs.isEmpty then "-" else ",".intercalate (m.subs.map showSubDetail)
  let lang := mostProbableNow m
  s!"{asciiOfName m.enc}|{subs}|{m.chaos.bits32}|{showCoh m.cohs}|{if m.bom then 1 else 0}|{showText m.text}|{m.mbu.bits32}|{m.chaosPercents.bits32}|{m.coherencePercents.bits32}|{asciiOfName lang}|{subd}"

def showFault : Fault → String
  | .slice s => s!"slice@{s}"
  | .divZero s => s!"divzero@{s}"
  | .unwrapNone s => s!"unwrap@{s}"
  | .overflow s => s!"overflow@{s}"
  | .entryMissing => "entry-missing"
  | .sigPayloadNone => "sig-payload-none"
  | .aliasMissing => "alias-missing"

def sorter : Sorter Name Name := sortMatches

/-- `worldFull` over the character facts received so far; a text with a character not yet described is a
    `need` (the harness then describes its characters instead of answering with the crate's result) -/
def fullWorldOf (o : Oracle) : World Name Name :=
  let cm : Std.HashMap Nat (Nat × Nat × Bool × Bool × List Nat) := o.chars.foldl (fun m c => m.insert c.1 c.2) {}
  let menv : Md.MdEnv := {
    info := fun c => match cm.get? c with
      | some i => ⟨c, i.1, rangeIdOf Gen.unicodeRanges c, i.2.1⟩
      | none => ⟨c, 0, 0, c⟩
    susp := suspNow }
  let cenv : Coh.CohEnv := {
    isAlpha := fun c => ((cm.get? c).map (·.2.2.1)).getD false
    accent := fun c => ((cm.get? c).map (·.2.2.2.1)).getD false
    lower := fun c => ((cm.get? c).map (·.2.2.2.2)).getD [c] }
  let W := worldFull menv cenv o
  { W with
    mess := fun t thr => if (10 :: t).all cm.contains then W.mess t thr else needO (.mess t thr.key)
    coh := fun t thr langs =>
      if t.all (fun c => cm.contains c && (cenv.lower c).all cm.contains) then W.coh t thr langs
      else needO (.coh t thr.key langs) }

/-! ### speculation: everything the model could still ask for this input (never trusted, only
    used to batch oracle queries; a wrong guess costs one more round) -/

def speculate (W : World Name Name) (b : Bytes) (s : Settings) : List Query :=
  let T := tablesNow
  match canonList T.ianaName s.incl, canonList T.ianaName s.excl with
  | .ok incl, .ok excl =>
    let len := b.length
    let w := normWindow len s.steps s.chunk
    let sig := sigOf T.marks b
    let tooLarge := decide (T.tooBig < len)
    let c : Ctx Name := { b := b, steps := w.1, chunk := w.2, thr := s.thr, langThr := s.langThr,
                          sig := sig, tooLarge := tooLarge, prio := [], declared := none,
                          fallback := false, trace := false }
    T.supported.flatMap (fun e =>
      if !allowed incl excl e then [] else
      let bomHere : Bool := (sig.map (·.1)) == some e
      if !bomHere ∧ (e = T.utf16le ∨ e = T.utf16be) then [] else
      let startIdx := if bomHere then (match sig with | some x => x.2.length | none => 0) else 0
      let lazy : Bool := tooLarge && !T.isMultiByte e
      let endIdx := if lazy then T.maxProcessed else len
      let sl := (b.drop startIdx).take (endIdx - startIdx)
      match W.decode e sl with
      | .error (.need q) => [q]
      | .error _ => []
      | .ok none => []
      | .ok (some t0) =>
        let payload : Option Text := if lazy then none else some t0
        let seqLen := match payload with | some t => t.length | none => len
        let startOff := if bomHere ∧ payload.isNone then startIdx else 0
        let offs := offsets startOff seqLen (max (seqLen / (max c.steps 1)) 1)
        let Wz : World Name Name := { W with mess := fun _ _ => .ok Fl.zero }
        match chunkLoop Wz T c e payload seqLen (offs.length + 1) offs {} with
        | .error (.need q) => [q]
        | .error _ => []
        | .ok acc =>
          let langs := match W.target e with | .ok l => l | .error _ => []
          acc.chunks.flatMap (fun t =>
            (match W.mess t s.thr with | .error (.need q) => [q] | _ => []) ++
            (if e = T.ascii then [] else
              match W.coh t s.langThr langs with | .error (.need q) => [q] | _ => [])) ++
          (if e = T.ascii then [] else
            match cohAll W s.langThr langs acc.chunks with
            | .ok cdl => (match W.merge cdl with | .error (.need q) => [q] | _ => [])
            | .error _ => []))
  | _, _ => []

/-! ### requests -/

def parseBool (s : String) : Bool := s = "1"

def handleDetect (full : Bool) (args : List String) : String :=
  match args with
  | bh :: steps :: chunk :: thr :: lthr :: incl :: excl :: pre :: fb :: tr :: toks =>
    match unhex bh, steps.toNat?, chunk.toNat?, f32OfBits thr, f32OfBits lthr, parseXNames incl, parseXNames excl with
    | some b, some steps, some chunk, some thr, some lthr, some incl, some excl =>
      let s : Settings := { steps := steps, chunk := chunk, thr := thr, langThr := lthr, incl := incl,
                            excl := excl, preemptive := parseBool pre, fallback := parseBool fb,
                            trace := parseBool tr }
      match toks.foldlM (addOracle b) ({} : Oracle) with
      | none => "internal bad-oracle-token"
      | some o =>
        let W := if full then fullWorldOf o else worldNow o
        match fromBytes W tablesNow sorter b s with
        | .ok (.ok ms) => s!"ok {ms.length} " ++ " ".intercalate (ms.map showMatch)
        | .ok (.error (.badInclude n)) => s!"err include x{xhex n}"
        | .ok (.error (.badExclude n)) => s!"err exclude x{xhex n}"
        | .error (.fault f) => s!"fault {showFault f}"
        | .error (.need q) =>
          let qs := (q :: speculate W b s).eraseDups
          "need " ++ " ".intercalate (qs.map (showQuery b))
    | _, _, _, _, _, _, _ => "bad-op"
  | _ => "bad-op"

def handle (line : String) : String :=
  match line.trimAscii.toString.splitOn " " with
  | "detect" :: args => handleDetect false args
  | "detectfull" :: args => handleDetect true args
  | ["iana", n] =>
    match parseXNames n with
    | some [n] => (match ianaNow n with | some e => s!"ok {asciiOfName e}" | none => "ok none")
    | _ => "bad-op"
  | ["sort", n, bits] =>
    -- n elements 0..n-1, `bits` = row-major 0/1 matrix of is_less(i, j)
    match n.toNat? with
    | some n =>
      let m := bits.toList.toArray
      let lt : Nat → Nat → Bool := fun i j => m[i * n + j]? == some '1'
      "ok " ++ " ".intercalate ((sortUnstable lt (List.range n)).map toString)
    | none => "bad-op"
  | ["cohfull", thr, th, incl, envs] =>
    -- cd::coherence_ratio with all components in the model; env = cp:alpha:accent:lower.lower...
    let parseEnv (p : String) : Option (Nat × Bool × Bool × List Nat) :=
      match p.splitOn ":" with
      | [cp, al, ac, lo] =>
        match cp.toNat?, (if lo = "" then some [] else (lo.splitOn ".").mapM (·.toNat?)) with
        | some cp, some lo => some (cp, al == "1", ac == "1", lo)
        | _, _ => none
      | _ => none
    match f32OfBits thr, textOfHex th, (if incl = "-" then some [] else some ((incl.splitOn ",").map nameOfAscii)),
          (if envs = "-" then some [] else (envs.splitOn ",").mapM parseEnv) with
    | some thr, some t, some incl, some envs =>
      let em : Std.HashMap Nat (Bool × Bool × List Nat) := envs.foldl (fun m e => m.insert e.1 e.2) {}
      let env : Coh.CohEnv := {
        isAlpha := fun c => ((em.get? c).map (·.1)).getD false
        accent := fun c => ((em.get? c).map (·.2.1)).getD false
        lower := fun c => ((em.get? c).map (·.2.2)).getD [c] }
      (match Coh.coherenceRatio env Gen.unicodeRanges Gen.secondaryKeywords Gen.languages Gen.tooSmall t thr incl with
       | some r => "ok " ++ showCoh r
       | none => "ok E")
    | _, _, _, _ => "bad-op"
  | ["flags", items] =>
    -- new_mess_detector_character: flag words from primitive Unicode facts; item = cp:primbits:gc:script
    let parse (it : String) : Option (Nat × CharFlags.Prim) :=
      match (it.splitOn ":").mapM (·.toNat?) with
      | some [cp, b, gc, sc] =>
        some (cp, { ws := b.testBit 0, numeric := b.testBit 1, alpha := b.testBit 2, lower := b.testBit 3,
                    upper := b.testBit 4, emoji := b.testBit 5, uideo := b.testBit 6, accent := b.testBit 7,
                    gc := gc, script := sc })
      | _ => none
    match (items.splitOn ",").mapM parse with
    | some l => "ok " ++ ",".intercalate (l.map (fun (cp, p) =>
        toString (CharFlags.flagsOf p Gen.commonSafeAscii cp (unicodeRangeOf Gen.unicodeRanges cp))))
    | none => "bad-op"
  | ["suspall"] =>
    -- is_suspiciously_successive_range on every pair of rows of the block table (id 0 = no range)
    let n := Gen.unicodeRanges.length
    let ids := List.range (n + 1)
    "ok " ++ String.ofList (ids.flatMap (fun a => ids.map (fun b => if suspNow a b then '1' else '0')))
  | ["secondaryall"] =>
    "ok " ++ String.ofList (Gen.unicodeRanges.map (fun r => if rangeSecondary Gen.secondaryKeywords r.1 then '1' else '0'))
  | ["uranges", th] =>
    -- CharsetMatch::unicode_ranges() of a text ("none" = no decoded payload)
    match (if th = "none" then some none else (textOfHex th).map some) with
    | some t => "ok " ++ ",".intercalate ((unicodeRangesOf Gen.unicodeRanges t).map (fun n => "x" ++ xhex n))
    | none => "bad-op"
  | "merge" :: lists =>
    -- merge_coherence_ratios on per-chunk lists `Lang=scorebits,...` ("-" = empty list / no lists)
    match (if lists = ["-"] then some [] else lists.mapM parseCoh) with
    | some ls => "ok " ++ showCoh (mergeModel ls)
    | none => "bad-op"
  | ["sortsmall", n, keys] =>
    -- n elements 0..n-1 of a 16-byte type, compared by `keys[i] < keys[j]` (total preorder)
    match n.toNat?, (if keys = "-" then some [] else (keys.splitOn ",").mapM (·.toNat?)) with
    | some n, some ks =>
      let ka := ks.toArray
      let lt : Nat → Nat → Bool := fun i j => decide (ka[i]?.getD 0 < ka[j]?.getD 0)
      "ok " ++ " ".intercalate ((sortUnstableSmall lt (List.range n)).map toString)
    | _, _ => "bad-op"
  | ["cmp", ca, ha, ta, la, cb, hb, tb, lb] =>
    match f32OfBits ca, f32OfBits ha, ta.toNat?, la.toNat?, f32OfBits cb, f32OfBits hb, tb.toNat?, lb.toNat? with
    | some ca, some ha, some ta, some la, some cb, some hb, some tb, some lb =>
      let mk (c h : F32) (t l : Nat) : Match Name Name :=
        ⟨List.replicate l 0, [], c, (if h.key = 0 then [] else [([], h)]), false, [], some (List.replicate t 97)⟩
      let r := Match.cmp (mk ca ha ta la) (mk cb hb tb lb)
      s!"ok {match r with | .lt => "lt" | .eq => "eq" | .gt => "gt"}"
    | _, _, _, _, _, _, _, _ => "bad-op"
  | "container" :: tooBig :: nfirst :: items =>
    -- items: enc|chaosbits|cohbits|text-hex|rawlen ; the first `nfirst` go through `new`, the rest through `append`
    match tooBig.toNat?, nfirst.toNat? with
    | some tooBig, some nfirst =>
      let parse (it : String) : Option (Match Name Name) :=
        match it.splitOn "|" with
        | [e, c, h, t, l] =>
          match f32OfBits c, f32OfBits h, textOfHex t, l.toNat? with
          | some c, some h, some t, some l =>
            some ⟨List.replicate l 0, nameOfAscii e, c, (if h.key = 0 then [] else [(nameOfAscii "English", h)]), false, [], some t⟩
          | _, _, _, _ => none
        | _ => none
      match items.mapM parse with
      | none => "bad-op"
      | some ms =>
        let c0 := newContainer sorter (ms.take nfirst)
        let c := (ms.drop nfirst).foldl (fun acc m => append sorter tooBig acc m) c0
        "ok " ++ " ".intercalate (c.map (fun m => asciiOfName m.enc ++ "[" ++ ",".intercalate (m.subs.map (fun s => asciiOfName s.enc)) ++ "]"))
    | _, _ => "bad-op"
  | "cli" :: flags :: confirmAll :: files =>
    -- flags = 6 chars 0/1: alternatives normalize minimal replace force thresholdOk
    -- files: pathhex|contentId or MISSING|enc~textId~printedId;...  (contents/texts are opaque ids)
    let fl := flags.toList.map (· == '1')
    match fl with
    | [alt, norm, mini, repl, force, thrOk] =>
      let parseFile (f : String) : Option (Path × Option Nat × Option (List MInfo)) :=
        match f.splitOn "|" with
        | [ph, cid, ms] =>
          match textOfHex ph, (if cid = "MISSING" then some none else cid.toNat?.map some) with
          | some p, some cid =>
            if ms = "ERR" then some (p, cid, none) else
            let infos := (if ms = "-" then [] else ms.splitOn ";").mapM (fun m =>
              match m.splitOn "~" with
              | [e, t, pr] => (match t.toNat?, pr.toNat? with
                  | some t, some pr => some (⟨nameOfAscii e, [t], [[pr]]⟩ : MInfo) | _, _ => none)
              | _ => none)
            infos.map (fun i => (p, cid, some i))
          | _, _ => none
        | _ => none
      match files.mapM parseFile with
      | none => "bad-op"
      | some fs0 =>
        let fs : FS := (fs0.filterMap (fun x => x.2.1.map (fun c => (x.1, [c])))).eraseDups
        let detect : Bytes → Option (List MInfo) := fun c =>
          match fs0.find? (fun x => x.2.1.map (fun k => [k]) == some c) with
          | some x => x.2.2
          | none => some []
        let a : CliArgs := { files := fs0.map (·.1), alternatives := alt, normalize := norm, minimal := mini,
                             replace := repl, force := force, thresholdOk := thrOk }
        let (r, fs') := runCli a detect (fun _ => confirmAll == "1") fs
        let showEntry (e : Entry) : String :=
          s!"{hexOfText e.path}:{match e.encoding with | some n => asciiOfName n | none => "undefined"}:{match e.printed with | [[k]] => toString k | _ => "-"}:{match e.unicodePath with | some u => hexOfText u | none => "-"}"
        let showFs := " ".intercalate ((fs'.map (fun x => s!"{hexOfText x.1}={match x.2 with | [k] => toString k | _ => "?"}")).toArray.qsort (· < ·)).toList
        let showR := match r with
          | .error .replaceWithoutNormalize => "err replace-without-normalize"
          | .error .forceWithoutReplace => "err force-without-replace"
          | .error .thresholdOutOfRange => "err threshold"
          | .error (.missingFile p) => s!"err missing {hexOfText p}"
          | .error (.detection p) => s!"err detection {hexOfText p}"
          | .ok (.minimal ls) => "ok minimal " ++ "/".intercalate (ls.map (fun l => ",".intercalate (l.map (fun e => match e with | some n => asciiOfName n | none => "undefined"))))
          | .ok (.object e) => "ok object " ++ showEntry e
          | .ok (.array es) => "ok array " ++ ",".intercalate (es.map showEntry)
        showR ++ " ## " ++ showFs
    | _ => "bad-op"
  | "coh" :: thr :: layers =>
    -- coherence_ratio's loop on explicit layers: each layer = Lang=scorebits,... in candidate order ("-" = none)
    match f32OfBits thr, layers.mapM parseCoh with
    | some thr, some ls =>
      let arr := ls.toArray
      let cands : Nat → List Name := fun i => (arr[i]?.getD []).map (·.1)
      let score : Nat → Name → F32 := fun i l => ((arr[i]?.getD []).find? (fun p => p.1 == l)).map (·.2) |>.getD Fl.zero
      "ok " ++ showCoh (coherenceRatioModel thr ls.length score cands)
    | _, _ => "bad-op"
  | ["codecid", n] =>
    match parseXNames n with
    | some [n] => (match lookupName Gen.labelCodec (normLabel n) with
                   | some e => s!"ok {asciiOfName e}" | none => "ok none")
    | _ => "bad-op"
  | ["aliases", n] =>
    match parseXNames n with
    | some [n] => (match lookupName Gen.aliases n with
                   | some l => "ok " ++ ",".intercalate (l.map asciiOfName) | none => "ok none")
    | _ => "bad-op"
  | ["ismb", n] =>
    match parseXNames n with
    | some [n] => s!"ok {if tablesNow.isMultiByte n then 1 else 0}"
    | _ => "bad-op"
  | ["similar", a, b] =>
    match parseXNames a, parseXNames b with
    | some [a], some [b] => s!"ok {if tablesNow.similar a b then 1 else 0}"
    | _, _ => "bad-op"
  | ["sig", bh] =>
    match unhex bh with
    | some b => (match sigOf tablesNow.marks b with
                 | some (e, m) => s!"ok {asciiOfName e}:{m.length}" | none => "ok none")
    | none => "bad-op"
  | ["declared", bh] =>
    match unhex bh with
    | some b => (match tablesNow.declared b with | some e => s!"ok {asciiOfName e}" | none => "ok none")
    | none => "bad-op"
  | ["helper", enc, trap, onlyTest, chunk, bh] =>
    -- utils::decode in all modes for the modelled codecs
    match unhex bh, (match trap with | "strict" => some Trap.strict | "ignore" => some Trap.ignore | "replace" => some Trap.replace | _ => none) with
    | some b, some trap =>
      let e := nameOfAscii enc
      (match codecNow e with
       | none => "ok notfound"
       | some c =>
         match decodeHelper c (Gen.multiByte.contains e) trap (parseBool onlyTest) (parseBool chunk) b with
         | none => "ok external"
         | some none => "ok E"
         | some (some t) => s!"ok T{hexOfText t}")
    | _, _ => "bad-op"
  | ["decode", enc, bh, ch] =>
    match unhex bh with
    | some b =>
      (match decodeNow {} (parseBool ch) (nameOfAscii enc) b with
       | .ok (some t) => s!"ok T{hexOfText t}"
       | .ok none => "ok E"
       | .error _ => "ok opaque")
    | none => "bad-op"
  | ["f32", op, a, b] =>
    match f32OfBits a, f32OfBits b with
    | some x, some y =>
      let r : Option F32 := match op with
        | "add" => some (Fl.add x y) | "sub" => some (Fl.sub x y)
        | "mul" => some (Fl.mul x y) | "div" => some (Fl.div x y)
        | _ => none
      (match r with | some r => s!"ok {r.bits32}" | none => "bad-op")
    | _, _ => "bad-op"
  | ["mess", thr, th, infos, susp] =>
    -- md::mess_ratio on a text; the Unicode side (per-character records, suspicious range pairs) is supplied
    let parseInfo (p : String) : Option Md.CharInfo :=
      match (p.splitOn ":").mapM (·.toNat?) with
      | some [cp, fl, r, b] => some ⟨cp, fl, r, b⟩
      | _ => none
    let parsePair (p : String) : Option (Nat × Nat) :=
      match (p.splitOn ":").mapM (·.toNat?) with
      | some [a, b] => some (a, b)
      | _ => none
    match f32OfBits thr, textOfHex th,
          (if infos = "-" then some [] else (infos.splitOn ",").mapM parseInfo),
          (if susp = "-" then some [] else (susp.splitOn ",").mapM parsePair) with
    | some thr, some t, some infos, some pairs =>
      let im : Std.HashMap Nat Md.CharInfo := infos.foldl (fun m i => m.insert i.cp i) {}
      let sm : Std.HashMap (Nat × Nat) Unit := pairs.foldl (fun m p => m.insert p ()) {}
      -- the range of a character and the suspicious pairs are also *computed* by the model
      -- (Ranges.lean, RangeRules.lean); what the crate supplied must agree
      let badRange := infos.find? (fun i => rangeIdOf Gen.unicodeRanges i.cp != i.range)
      let rids := (infos.map (·.range)).eraseDups
      let badPair := (rids.flatMap (fun a => rids.map (fun b => (a, b)))).find? (fun p => suspNow p.1 p.2 != sm.contains p)
      if badRange.isSome then s!"env-mismatch range of {(badRange.map (·.cp)).getD 0}"
      else if badPair.isSome then s!"env-mismatch pair {(badPair.getD (0,0)).1} {(badPair.getD (0,0)).2}"
      else if t.all (fun c => im.contains c) && im.contains 10 then
        let env : Md.MdEnv := { info := fun c => im.getD c ⟨c, 0, 0, c⟩, susp := fun a b => sm.contains (a, b) }
        -- the answer, and (for the evidence file's distribution) the final per-plugin ratios
        let fin := (t ++ [10]).foldl (fun (d : Md.Dets) c => d.feed env (env.info c)) ({} : Md.Dets)
        s!"ok {(Md.messRatio env t thr).bits32} " ++ ",".intercalate (fin.ratios.map (fun (r : F32) => toString r.bits32))
      else "bad-op"
    | _, _, _, _ => "bad-op"
  | ["f32ofnat", n] => (match n.toNat? with | some n => s!"ok {(Fl.ofNat fmt32 n).bits32}" | none => "bad-op")
  | _ => "bad-op"

partial def loop (h : IO.FS.Stream) (out : IO.FS.Stream) : IO Unit := do
  let line ← h.getLine
  if line.isEmpty then return ()
  out.putStrLn (handle line)
  out.flush
  loop h out

end Charset.Driver
