/-
  Primitive types shared by the whole model.  Import-free (core only).
  Bytes are `Nat` (< 256 for well-formed input), text is a list of code points.
-/
namespace Charset

abbrev Bytes := List Nat
abbrev Text  := List Nat
/-- names (encoding labels, languages, range names) are ASCII/UTF-32 code point lists:
    string literals do not kernel-reduce, lists of `Nat` do -/
abbrev Name  := List Nat

/-- A place where the Rust code would panic (or return an error the API does not document). -/
inductive Fault
  | slice (site : Nat)        -- `&x[a..b]` with a > b or b > len
  | divZero (site : Nat)      -- integer `/` or `%` by zero
  | unwrapNone (site : Nat)   -- `unwrap`/`expect` on `None` / `unwrap_err` on `Ok`
  | overflow (site : Nat)     -- unsigned `-` below zero / `+` past the type's maximum (checked builds)
  | entryMissing              -- lib.rs:557 "entry not present" error path
  | sigPayloadNone            -- lib.rs:332
  | aliasMissing              -- entity.rs:197 expect on the alias table
  deriving DecidableEq, Repr

/-- A query the finite oracle table of the driver could not answer. Unreachable for total worlds. -/
inductive Query
  | decode (enc : Name) (slice : Bytes) (chunk : Bool)
  | mess (t : Text) (thr : Int)
  | coh (t : Text) (thr : Int) (langs : List Name)
  | merge (xs : List (List (Name × Int)))
  | target (enc : Name)
  deriving DecidableEq, Repr

inductive Stop
  | fault (f : Fault)
  | need (q : Query)
  deriving DecidableEq, Repr

abbrev M := Except Stop

def fault {α} (f : Fault) : M α := .error (.fault f)

/-- Rust `&b[i..j]`: panics unless `i ≤ j ≤ len`. -/
def sliceF (site : Nat) (b : List Nat) (i j : Nat) : M (List Nat) :=
  if i ≤ j ∧ j ≤ b.length then .ok ((b.drop i).take (j - i)) else fault (.slice site)

/-- Rust `a / b` on `usize`. -/
def divF (site : Nat) (a b : Nat) : M Nat :=
  if b = 0 then fault (.divZero site) else .ok (a / b)

def startsWith (b p : List Nat) : Bool := p.isPrefixOf b

/-- ASCII lower-casing of one code point (Rust `to_ascii_lowercase`) -/
def asciiLower (c : Nat) : Nat := if 65 ≤ c ∧ c ≤ 90 then c + 32 else c

def strOfName (n : Name) : String := String.ofList (n.map Char.ofNat)
def nameOfStr (s : String) : Name := s.toList.map Char.toNat

end Charset
