/-
  Model of `md.rs` + `md/plugins.rs`: the eight mess-detector plugins and the `mess_ratio` loop.

  What is *not* modelled is the Unicode database: the per-character record `MessDetectorChar`
  (flag bits, range, de-accented character) and `is_suspiciously_successive_range` enter through
  `MdEnv`; the correspondence check fills it from the compiled crate (`char_info`, `remove_accent`,
  `is_suspiciously_successive_range`).  Everything the plugins *do* with those records – every
  counter, every guard, every division, the order of the sum, the early stop – is Lean code, and the
  theorems about it (`Lemmas/Md.lean`) hold for every `MdEnv`.
  Counters are `Nat` (Rust: `u64`; the theorems carry the bound that keeps them far below 2^64).
-/
import CharsetProof.Model.F32
namespace Charset
namespace Md

/-- `MessDetectorChar` as the plugins see it -/
structure CharInfo where
  cp    : Nat
  flags : Nat
  /-- 0 = no range, else 1 + index into `UNICODE_RANGES_COMBINED` -/
  range : Nat
  /-- `remove_accent(character)` -/
  base  : Nat
  deriving DecidableEq, Repr

/-- bit numbers of `MessDetectorCharFlags` (tie T2: `Inventory.mdFlags`) -/
def WHITESPACE : Nat := 0
def UNPRINTABLE : Nat := 1
def SYMBOL : Nat := 2
def EMOTICON : Nat := 3
def COMMON_SAFE : Nat := 4
def WEIRD_SAFE : Nat := 5
def PUNCTUATION : Nat := 6
def SEPARATOR : Nat := 7
def ASCII : Nat := 8
def ASCII_ALPHABETIC : Nat := 9
def ASCII_GRAPHIC : Nat := 10
def ASCII_DIGIT : Nat := 11
def LATIN : Nat := 12
def ALPHABETIC : Nat := 13
def ACCENTUATED : Nat := 14
def CJK : Nat := 15
def HANGUL : Nat := 16
def KATAKANA : Nat := 17
def HIRAGANA : Nat := 18
def THAI : Nat := 19
def CASE_VARIABLE : Nat := 20
def LOWERCASE : Nat := 21
def UPPERCASE : Nat := 22
def NUMERIC : Nat := 23

/-- the flag table as data, compared with the source text by T2 -/
def flagTable : List (String × Nat) :=
  [("WHITESPACE", WHITESPACE), ("UNPRINTABLE", UNPRINTABLE), ("SYMBOL", SYMBOL), ("EMOTICON", EMOTICON),
   ("COMMON_SAFE", COMMON_SAFE), ("WEIRD_SAFE", WEIRD_SAFE), ("PUNCTUATION", PUNCTUATION),
   ("SEPARATOR", SEPARATOR), ("ASCII", ASCII), ("ASCII_ALPHABETIC", ASCII_ALPHABETIC),
   ("ASCII_GRAPHIC", ASCII_GRAPHIC), ("ASCII_DIGIT", ASCII_DIGIT), ("LATIN", LATIN),
   ("ALPHABETIC", ALPHABETIC), ("ACCENTUATED", ACCENTUATED), ("CJK", CJK), ("HANGUL", HANGUL),
   ("KATAKANA", KATAKANA), ("HIRAGANA", HIRAGANA), ("THAI", THAI), ("CASE_VARIABLE", CASE_VARIABLE),
   ("LOWERCASE", LOWERCASE), ("UPPERCASE", UPPERCASE), ("NUMERIC", NUMERIC)]

/-- the `detectors` vector of `mess_ratio`, in order (tie T2: `Inv.mdDetectors`); `Dets.ratios` follows it -/
def detectorOrder : List String :=
  ["TooManySymbolOrPunctuationPlugin", "TooManyAccentuatedPlugin", "UnprintablePlugin", "SuspiciousRangePlugin",
   "SuspiciousDuplicateAccentPlugin", "SuperWeirdWordPlugin", "CjkInvalidStopPlugin", "ArchaicUpperLowerPlugin"]

/-- `character.is(FLAG)` -/
def CharInfo.is (c : CharInfo) (bit : Nat) : Bool := c.flags.testBit bit

/-- the Unicode side of the mess detector -/
structure MdEnv where
  info : Nat → CharInfo
  /-- `is_suspiciously_successive_range(range_a, range_b)` on range ids -/
  susp : Nat → Nat → Bool

abbrev f32 (n : Nat) : F32 := Fl.ofNat fmt32 n

/-! ### 1. TooManySymbolOrPunctuationPlugin -/

structure P1 where
  punct : Nat := 0
  symbol : Nat := 0
  count : Nat := 0
  last : Option Nat := none   -- `last_printable_char` (compared by character)
  deriving DecidableEq, Repr

def P1.eligible (c : CharInfo) : Bool := !c.is UNPRINTABLE

def P1.bump (s : P1) (c : CharInfo) : P1 :=
  if c.is PUNCTUATION then { s with punct := s.punct + 1 }
  else if !c.is NUMERIC && c.is SYMBOL && !c.is EMOTICON then { s with symbol := s.symbol + 2 }
  else s

def P1.feed (s : P1) (c : CharInfo) : P1 :=
  let s := { s with count := s.count + 1 }
  let s := if (s.last != some c.cp) && !c.is COMMON_SAFE then s.bump c else s
  { s with last := some c.cp }

def P1.ratio (s : P1) : F32 :=
  if s.count = 0 then Fl.zero else
  let r := Fl.div (f32 (s.punct + s.symbol)) (f32 s.count)
  if Fl.ge r (F32.lit 3 10) then r else Fl.zero

/-! ### 2. TooManyAccentuatedPlugin -/

structure P2 where
  count : Nat := 0
  accent : Nat := 0
  deriving DecidableEq, Repr

def P2.eligible (c : CharInfo) : Bool := c.is ALPHABETIC

def P2.feed (s : P2) (c : CharInfo) : P2 :=
  { count := s.count + 1, accent := if c.is ACCENTUATED then s.accent + 1 else s.accent }

def P2.ratio (s : P2) : F32 :=
  if 8 ≤ s.count then
    let r := Fl.div (f32 s.accent) (f32 s.count)
    if Fl.ge r (F32.lit 35 100) then r else Fl.zero
  else Fl.zero

/-! ### 3. UnprintablePlugin -/

structure P3 where
  count : Nat := 0
  unprintable : Nat := 0
  deriving DecidableEq, Repr

def P3.feed (s : P3) (c : CharInfo) : P3 :=
  { unprintable := if c.is UNPRINTABLE then s.unprintable + 1 else s.unprintable, count := s.count + 1 }

def P3.ratio (s : P3) : F32 :=
  if s.count = 0 then Fl.zero
  else Fl.div (Fl.mul (f32 s.unprintable) (f32 8)) (f32 s.count)

/-! ### 4. SuspiciousRangePlugin -/

structure P4 where
  count : Nat := 0
  susp : Nat := 0
  last : Option CharInfo := none
  deriving DecidableEq, Repr

def P4.eligible (c : CharInfo) : Bool := !c.is UNPRINTABLE

def P4.feed (env : MdEnv) (s : P4) (c : CharInfo) : P4 :=
  let s := { s with count := s.count + 1 }
  if c.is WHITESPACE || c.is PUNCTUATION || c.is COMMON_SAFE then { s with last := none }
  else match s.last with
    | none => { s with last := some c }
    | some l =>
      let s := if env.susp l.range c.range then { s with susp := s.susp + 1 } else s
      { s with last := some c }

def P4.ratio (s : P4) : F32 :=
  if 0 < s.count then
    let r := Fl.div (Fl.mul (f32 s.susp) (f32 2)) (f32 s.count)
    if Fl.ge r (F32.lit 1 10) then r else Fl.zero
  else Fl.zero

/-! ### 5. SuspiciousDuplicateAccentPlugin -/

structure P5 where
  count : Nat := 0
  successive : Nat := 0
  last : Option CharInfo := none
  deriving DecidableEq, Repr

def P5.eligible (c : CharInfo) : Bool := c.is ALPHABETIC && c.is LATIN

def P5.feed (s : P5) (c : CharInfo) : P5 :=
  let s := { s with count := s.count + 1 }
  let s :=
    match s.last with
    | none => s
    | some l =>
      if c.is ACCENTUATED && l.is ACCENTUATED then
        let s := if c.is UPPERCASE && l.is UPPERCASE then { s with successive := s.successive + 1 } else s
        if c.base = l.base then { s with successive := s.successive + 1 } else s
      else s
  { s with last := some c }

def P5.ratio (s : P5) : F32 :=
  if s.count = 0 then Fl.zero
  else Fl.div (Fl.mul (f32 s.successive) (f32 2)) (f32 s.count)

/-! ### 6. SuperWeirdWordPlugin -/

structure P6 where
  count : Nat := 0
  words : Nat := 0
  badWords : Nat := 0
  foreignLong : Nat := 0
  curBad : Bool := false
  watch : Bool := false
  badChars : Nat := 0
  bufAccent : Nat := 0
  buffer : List CharInfo := []
  deriving DecidableEq, Repr

/-- the `buffer_length >= 4` block -/
def P6.short (s : P6) : P6 :=
  let n := s.buffer.length
  if 4 ≤ n then
    let s := if Fl.gt (Fl.div (f32 s.bufAccent) (f32 n)) (F32.lit 34 100) then { s with curBad := true } else s
    match s.buffer.getLast? with
    | some l =>
      if l.is ACCENTUATED && l.is UPPERCASE then
        { s with foreignLong := s.foreignLong + 1, curBad := true }
      else s
    | none => s
  else s

/-- the `buffer_length >= 24 && foreign_long_watch` block -/
def P6.long (s : P6) : P6 :=
  let n := s.buffer.length
  if 24 ≤ n && s.watch then
    let up := (s.buffer.filter (·.is UPPERCASE)).length
    let camel := 0 < up && Fl.le (Fl.div (f32 up) (f32 n)) (F32.lit 3 10)
    if !camel then { s with foreignLong := s.foreignLong + 1, curBad := true } else s
  else s

/-- end of a word (whitespace / punctuation / separator seen, buffer non-empty) -/
def P6.endWord (s : P6) : P6 :=
  let s := { s with words := s.words + 1, count := s.count + s.buffer.length }
  let s := s.short
  let s := s.long
  let s := if s.curBad then
      { s with badWords := s.badWords + 1, badChars := s.badChars + s.buffer.length, curBad := false }
    else s
  { s with watch := false, buffer := [], bufAccent := 0 }

def P6.feed (s : P6) (c : CharInfo) : P6 :=
  if c.is ASCII_ALPHABETIC then
    { s with
      buffer := s.buffer ++ [c]
      bufAccent := if c.is ACCENTUATED then s.bufAccent + 1 else s.bufAccent
      watch := s.watch || ((!c.is LATIN || c.is ACCENTUATED) && !c.is CJK && !c.is HANGUL
                            && !c.is KATAKANA && !c.is HIRAGANA && !c.is THAI) }
  else if s.buffer.isEmpty then s
  else if c.is WHITESPACE || c.is PUNCTUATION || c.is SEPARATOR then s.endWord
  else if !c.is WEIRD_SAFE && !c.is ASCII_DIGIT && c.is SYMBOL then
    { s with curBad := true, buffer := s.buffer ++ [c] }
  else s

def P6.ratio (s : P6) : F32 :=
  if s.words ≤ 10 && s.foreignLong = 0 then Fl.zero
  else Fl.div (f32 s.badChars) (f32 s.count)

/-! ### 7. CjkInvalidStopPlugin -/

structure P7 where
  wrongStop : Nat := 0
  cjk : Nat := 0
  deriving DecidableEq, Repr

def P7.feed (s : P7) (c : CharInfo) : P7 :=
  if c.cp = 0x4E05 || c.cp = 0x4E04 then { s with wrongStop := s.wrongStop + 1 }
  else if c.is CJK then { s with cjk := s.cjk + 1 } else s

def P7.ratio (s : P7) : F32 :=
  if s.cjk < 16 then Fl.zero else Fl.div (f32 s.wrongStop) (f32 s.cjk)

/-! ### 8. ArchaicUpperLowerPlugin -/

structure P8 where
  buf : Bool := false
  asciiOnly : Bool := true
  sinceSep : Nat := 0
  succ : Nat := 0
  succFinal : Nat := 0
  count : Nat := 0
  last : Option CharInfo := none
  deriving DecidableEq, Repr

def P8.feed (s : P8) (c : CharInfo) : P8 :=
  if !(c.is ALPHABETIC && c.is CASE_VARIABLE) && 0 < s.sinceSep then
    let s := if s.sinceSep ≤ 64 && !c.is ASCII_DIGIT && !s.asciiOnly
             then { s with succFinal := s.succFinal + s.succ } else s
    { s with succ := 0, sinceSep := 0, last := none, buf := false, count := s.count + 1, asciiOnly := true }
  else
    let s := { s with asciiOnly := s.asciiOnly && c.is ASCII }
    let s :=
      match s.last with
      | none => s
      | some l =>
        if (c.is UPPERCASE && l.is LOWERCASE) || (c.is LOWERCASE && l.is UPPERCASE) then
          if s.buf then { s with succ := s.succ + 2, buf := false } else { s with buf := true }
        else { s with buf := false }
    { s with count := s.count + 1, sinceSep := s.sinceSep + 1, last := some c }

def P8.ratio (s : P8) : F32 :=
  if s.count = 0 then Fl.zero else Fl.div (f32 s.succFinal) (f32 s.count)

/-! ### the detector array and `mess_ratio` -/

structure Dets where
  p1 : P1 := {}
  p2 : P2 := {}
  p3 : P3 := {}
  p4 : P4 := {}
  p5 : P5 := {}
  p6 : P6 := {}
  p7 : P7 := {}
  p8 : P8 := {}
  deriving DecidableEq, Repr

/-- `detectors.iter_mut().filter(eligible).for_each(feed)` -/
def Dets.feed (env : MdEnv) (d : Dets) (c : CharInfo) : Dets :=
  { p1 := if P1.eligible c then d.p1.feed c else d.p1
    p2 := if P2.eligible c then d.p2.feed c else d.p2
    p3 := d.p3.feed c
    p4 := if P4.eligible c then d.p4.feed env c else d.p4
    p5 := if P5.eligible c then d.p5.feed c else d.p5
    p6 := d.p6.feed c
    p7 := d.p7.feed c
    p8 := d.p8.feed c }

/-- the ratios in the order of the `detectors` vector
    (symbol/punctuation, accentuated, unprintable, range, duplicate accent, weird word, cjk stop, archaic) -/
def Dets.ratios (d : Dets) : List F32 :=
  [d.p1.ratio, d.p2.ratio, d.p3.ratio, d.p4.ratio, d.p5.ratio, d.p6.ratio, d.p7.ratio, d.p8.ratio]

/-- `iter().map(ratio).sum::<f32>()` (left fold from zero) -/
def Dets.sum (d : Dets) : F32 := d.ratios.foldl Fl.add Fl.zero

/-- `early_calc_period` -/
def period (n : Nat) : Nat := if n ≤ 510 then 32 else if n ≤ 1023 then 64 else 128

/-- the traversal: `idx` = index of the head of `cs` -/
def loop (env : MdEnv) (p : Nat) (thr : F32) : Dets → Nat → List Nat → F32
  | d, _, [] => d.sum
  | d, idx, c :: cs =>
    let d := d.feed env (env.info c)
    if idx % p = p - 1 ∧ Fl.ge d.sum thr then d.sum
    else loop env p thr d (idx + 1) cs

/-- `mess_ratio(decoded_sequence, Some(thr))` -/
def messRatio (env : MdEnv) (t : Text) (thr : F32) : F32 :=
  loop env (period t.length) thr {} 0 (t ++ [10])

end Md
end Charset
