/-
  The fully modelled world: mess detector, coherence detector and merge are Lean code.
-/
import CharsetProof.Model.MdWorld
import CharsetProof.Model.Coh
namespace Charset

/-- The current tree with the mess detector *and* the coherence detector inside the model:
    `mess` = `Md.messRatio` over `menv`, `coh` = `Coh.coherenceRatio` over `cenv` and the dumped tables,
    `merge` = `mergeModel`; the decoders of every supported encoding are Lean definitions too (Model/Cjk.lean for the
    multi-byte legacy ones), so the oracle argument is never consulted (Props/C11c.lean proves it irrelevant). -/
def worldFull (menv : Md.MdEnv) (cenv : Coh.CohEnv) (o : Oracle) : World Name Name :=
  { worldNow o with
    mess := messGuarded menv
    coh := fun t thr langs =>
      .ok (Coh.coherenceRatio cenv Gen.unicodeRanges Gen.secondaryKeywords Gen.languages Gen.tooSmall t thr langs) }

end Charset
