/-
  The fully modelled world: mess detector, coherence detector and merge are Lean code.
-/
import CharsetProof.Model.MdWorld
import CharsetProof.Model.Coh
namespace Charset

/-- The current tree with the mess detector *and* the coherence detector inside the model:
    `mess` = `Md.messRatio` over `menv`, `coh` = `Coh.coherenceRatio` over `cenv` and the dumped tables,
    `merge` = `mergeModel`; only the CJK decoders remain oracle-answered. -/
def worldFull (menv : Md.MdEnv) (cenv : Coh.CohEnv) (o : Oracle) : World Name Name :=
  { worldNow o with
    mess := messGuarded menv
    coh := fun t thr langs =>
      .ok (Coh.coherenceRatio cenv Gen.unicodeRanges Gen.secondaryKeywords Gen.languages Gen.tooSmall t thr langs) }

end Charset
