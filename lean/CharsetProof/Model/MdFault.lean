/-
  Fault-instrumented mess detector: the same plugins and loop as `Model/Md.lean`, written the way the Rust
  code evaluates them – every `Option::unwrap()` (md/plugins.rs: 6 sites), the `%` and the `-` of the
  early-calculation test (md.rs) are operations that can fail, in the order and under the short-circuit
  guards of the source.  `Props/C02b.lean` proves that no failure is reachable and that the instrumented
  functions compute exactly the plain model, for every Unicode environment, text and threshold: the plugin
  `unwrap`s of the panic-site inventory are dead.
-/
import CharsetProof.Model.Md
namespace Charset
namespace Md

abbrev FE := Except Fault

def unwrapF {α : Type} (site : Nat) : Option α → FE α
  | some x => .ok x
  | none => .error (.unwrapNone site)

/-- unsigned subtraction (panics below zero in checked builds, wraps otherwise – wrong either way) -/
def subF (site a b : Nat) : FE Nat := if b ≤ a then .ok (a - b) else .error (.overflow site)

/-- unsigned remainder -/
def modF (site a b : Nat) : FE Nat := if b = 0 then .error (.divZero site) else .ok (a % b)

/-- plugins.rs:43  `self.last_printable_char.is_none() || *character != self.last_printable_char.unwrap()` -/
def P1.changedF (s : P1) (c : CharInfo) : FE Bool :=
  if s.last.isNone then .ok true
  else match unwrapF 43 s.last with
    | .error e => .error e
    | .ok l => .ok (c.cp != l)

def P1.feedF (s : P1) (c : CharInfo) : FE P1 :=
  let s := { s with count := s.count + 1 }
  match P1.changedF s c with
  | .error e => .error e
  | .ok ch =>
    let s := if ch && !c.is COMMON_SAFE then s.bump c else s
    .ok { s with last := some c.cp }

/-- plugins.rs:194-214 -/
def P4.feedF (env : MdEnv) (s : P4) (c : CharInfo) : FE P4 :=
  let s := { s with count := s.count + 1 }
  if c.is WHITESPACE || c.is PUNCTUATION || c.is COMMON_SAFE then .ok { s with last := none }
  else if s.last.isNone then .ok { s with last := some c }
  else match unwrapF 208 s.last with
    | .error e => .error e
    | .ok l =>
      let s := if env.susp l.range c.range then { s with susp := s.susp + 1 } else s
      .ok { s with last := some c }

/-- plugins.rs:144-149  `is_some() && character.is(ACCENTUATED) && last.unwrap().is(ACCENTUATED)` -/
def P5.guardF (s : P5) (c : CharInfo) : FE Bool :=
  if s.last.isSome && c.is ACCENTUATED then
    match unwrapF 148 s.last with
    | .error e => .error e
    | .ok l => .ok (l.is ACCENTUATED)
  else .ok false

/-- plugins.rs:151-156  `character.is(UPPERCASE) && last.unwrap().is(UPPERCASE)` -/
def P5.upperF (s : P5) (c : CharInfo) : FE Bool :=
  if c.is UPPERCASE then
    match unwrapF 154 s.last with
    | .error e => .error e
    | .ok l => .ok (l.is UPPERCASE)
  else .ok false

def P5.feedF (s : P5) (c : CharInfo) : FE P5 :=
  let s := { s with count := s.count + 1 }
  match P5.guardF s c with
  | .error e => .error e
  | .ok false => .ok { s with last := some c }
  | .ok true =>
    match P5.upperF s c with
    | .error e => .error e
    | .ok up =>
      let s1 := if up then { s with successive := s.successive + 1 } else s
      match unwrapF 162 s.last with
      | .error e => .error e
      | .ok l =>
        let s2 := if c.base = l.base then { s1 with successive := s1.successive + 1 } else s1
        .ok { s2 with last := some c }

/-- plugins.rs:274-289  `let last_char = self.buffer.last().unwrap()` inside `buffer_length >= 4` -/
def P6.shortF (s : P6) : FE P6 :=
  let n := s.buffer.length
  if 4 ≤ n then
    let s := if Fl.gt (Fl.div (f32 s.bufAccent) (f32 n)) (F32.lit 34 100) then { s with curBad := true } else s
    match unwrapF 282 s.buffer.getLast? with
    | .error e => .error e
    | .ok l =>
      if l.is ACCENTUATED && l.is UPPERCASE then
        .ok { s with foreignLong := s.foreignLong + 1, curBad := true }
      else .ok s
  else .ok s

def P6.endWordF (s : P6) : FE P6 :=
  let s := { s with words := s.words + 1, count := s.count + s.buffer.length }
  match s.shortF with
  | .error e => .error e
  | .ok s =>
    let s := s.long
    let s := if s.curBad then
        { s with badWords := s.badWords + 1, badChars := s.badChars + s.buffer.length, curBad := false }
      else s
    .ok { s with watch := false, buffer := [], bufAccent := 0 }

def P6.feedF (s : P6) (c : CharInfo) : FE P6 :=
  if c.is ASCII_ALPHABETIC then
    .ok { s with
      buffer := s.buffer ++ [c]
      bufAccent := if c.is ACCENTUATED then s.bufAccent + 1 else s.bufAccent
      watch := s.watch || ((!c.is LATIN || c.is ACCENTUATED) && !c.is CJK && !c.is HANGUL
                            && !c.is KATAKANA && !c.is HIRAGANA && !c.is THAI) }
  else if s.buffer.isEmpty then .ok s
  else if c.is WHITESPACE || c.is PUNCTUATION || c.is SEPARATOR then s.endWordF
  else if !c.is WEIRD_SAFE && !c.is ASCII_DIGIT && c.is SYMBOL then
    .ok { s with curBad := true, buffer := s.buffer ++ [c] }
  else .ok s

/-- `detectors.iter_mut().filter(eligible).for_each(feed)`, in the order of the vector -/
def Dets.feedF (env : MdEnv) (d : Dets) (c : CharInfo) : FE Dets :=
  match (if P1.eligible c then d.p1.feedF c else .ok d.p1) with
  | .error e => .error e
  | .ok p1 =>
  match (if P4.eligible c then d.p4.feedF env c else .ok d.p4) with
  | .error e => .error e
  | .ok p4 =>
  match (if P5.eligible c then d.p5.feedF c else .ok d.p5) with
  | .error e => .error e
  | .ok p5 =>
  match d.p6.feedF c with
  | .error e => .error e
  | .ok p6 =>
    .ok { p1 := p1
          p2 := if P2.eligible c then d.p2.feed c else d.p2
          p3 := d.p3.feed c
          p4 := p4
          p5 := p5
          p6 := p6
          p7 := d.p7.feed c
          p8 := d.p8.feed c }

/-- md.rs: `index % early_calc_period == early_calc_period - 1` -/
def checkpointF (idx p : Nat) : FE Bool :=
  match modF 57 idx p with
  | .error e => .error e
  | .ok r =>
    match subF 57 p 1 with
    | .error e => .error e
    | .ok q => .ok (r == q)

def loopF (env : MdEnv) (p : Nat) (thr : F32) : Dets → Nat → List Nat → FE F32
  | d, _, [] => .ok d.sum
  | d, idx, c :: cs =>
    match d.feedF env (env.info c) with
    | .error e => .error e
    | .ok d =>
      match checkpointF idx p with
      | .error e => .error e
      | .ok cp =>
        if cp ∧ Fl.ge d.sum thr then .ok d.sum
        else loopF env p thr d (idx + 1) cs

/-- `mess_ratio` with every partial operation explicit -/
def messRatioF (env : MdEnv) (t : Text) (thr : F32) : FE F32 :=
  loopF env (period t.length) thr {} 0 (t ++ [10])

end Md
end Charset
