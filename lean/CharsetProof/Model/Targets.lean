/-
  Model of the language targets of an encoding (`cd.rs`): `encoding_unicode_range`,
  `unicode_range_languages`, `encoding_languages` (single-byte code pages) and `mb_encoding_languages`.
  The single-byte decoding tables, the block table, the secondary keywords and the language table are
  dumped from the compiled crate (T1); what is computed from them is Lean code, and
  `Props/C10f.lean` proves that the dumped `targetLanguages` table is exactly what this model computes.
-/
import CharsetProof.Model.Concrete
import CharsetProof.Model.RangeRules
namespace Charset

/-- `encoding_unicode_range(name)` for a single-byte code page given by its decoding table:
    the primary ranges that hold at least 15 % of the characters of bytes 0x40..0xFE, sorted by name -/
def encodingUnicodeRange (tbl : List Nat) : List Name :=
  let rs : List Name := (List.range (0xFF - 0x40)).filterMap (fun k =>
    match tbl[0x40 + k]? with
    | none => none
    | some cp =>
      if cp = undefCp then none
      else (unicodeRangeOf Gen.unicodeRanges cp).filter (fun r => !rangeSecondary Gen.secondaryKeywords r))
  let total := rs.length
  let kept := (dedup rs).filter (fun r =>
    Fl.ge (Fl.div (Fl.ofNat fmt32 (rs.filter (· == r)).length) (Fl.ofNat fmt32 total)) (F32.lit 15 100))
  insertionSort nameLt kept

/-- `unicode_range_languages(range)`: languages one of whose characters lies in the range, in table order -/
def unicodeRangeLanguages (r : Name) : List Name :=
  Gen.languages.filterMap (fun row =>
    if row.2.1.any (fun c => (unicodeRangeOf Gen.unicodeRanges c).getD [] == r) then some row.1 else none)

def nUnknownTarget : Name := [85,110,107,110,111,119,110]

/-- `encoding_languages(name)` -/
def encodingLanguages (tbl : List Nat) : List Name :=
  match (encodingUnicodeRange tbl).find? (fun r => !containsSub r sLatin) with
  | some r => unicodeRangeLanguages r
  | none => [nUnknownTarget]

/-- what `from_bytes` computes as target languages of a candidate (lib.rs:375-385) -/
def targetLanguagesModel (e : Name) : Option (List Name) :=
  if Gen.multiByte.contains e then some ((lookupName Gen.encodingToLanguage e).toList)
  else match codecNow e with
    | some (.table tbl) => some (encodingLanguages tbl)
    | _ => none

end Charset
