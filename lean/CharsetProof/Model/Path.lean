/-
  Model of `from_path` (src/lib.rs 605-619) over an abstract file system.
-/
import CharsetProof.Model.Detect
namespace Charset

/-- what a path can denote -/
inductive Node
  | file (content : Bytes)   -- readable regular file
  | dir                      -- `File::open` succeeds, `read_to_end` fails (EISDIR)
  | missing                  -- ENOENT (also a dangling symlink)
  | denied                   -- EACCES
  | notDir                   -- ENOTDIR (a component of the path is a file)
  | readFails                -- open succeeds, reading fails midway (I/O error)
  deriving DecidableEq, Repr

inductive PathErr
  | open_   -- "Error opening file: …"
  | read    -- "Error reading from file: …"
  deriving DecidableEq, Repr

inductive PathResult (α : Type)
  | ioError (e : PathErr)
  | detected (r : α)

variable {E L : Type} [DecidableEq E]

/-- `from_path`: open, read everything, then `from_bytes` on exactly the bytes read -/
def fromPath (W : World E L) (T : Tables E) (sort : Sorter E L) (fs : Name → Node) (p : Name) (s : Settings) :
    PathResult (M (Except Err (List (Match E L)))) :=
  match fs p with
  | .file b => .detected (fromBytes W T sort b s)
  | .dir => .ioError .read
  | .readFails => .ioError .read
  | .missing => .ioError .open_
  | .denied => .ioError .open_
  | .notDir => .ioError .open_

end Charset
