/-
  Model of `cd::coherence_ratio` (src/cd.rs, after the determinism repair) over an abstract
  language world: `layers` (alpha_unicode_split + the > 32 characters filter), `candidates`
  (alphabet_languages or the include list) and `score` (characters_popularity_compare = jaro) are
  parameters; the threshold / sufficiency / break logic, the per-language maximum and the final sort
  are modelled.
-/
import CharsetProof.Model.F32
import CharsetProof.Model.Sort
import CharsetProof.Model.SortSmall
namespace Charset

variable {L : Type} [DecidableEq L]

/-- 0.8 as the f32 the comparison `r >= 0.8` uses -/
def sufficient : F32 := F32.lit 8 10

/-- inner loop over the candidate languages of one layer (cd.rs: `for language in languages`):
    returns the entries pushed and the new sufficiency counter -/
def cohLayer (thr : F32) (score : L → F32) : List L → Nat → List (L × F32) × Nat
  | [], suff => ([], suff)
  | l :: ls, suff =>
    let r := score l
    if Fl.lt r thr then cohLayer thr score ls suff            -- `r if r < threshold => continue`
    else
      let suff' := if Fl.ge r sufficient then suff + 1 else suff
      if 3 ≤ suff' then ([(l, r)], suff')                     -- push, then `break`
      else
        let rest := cohLayer thr score ls suff'
        ((l, r) :: rest.1, rest.2)

/-- outer loop over the layers -/
def cohLayers (thr : F32) (score : Nat → L → F32) (cands : Nat → List L) : List Nat → Nat → List (L × F32)
  | [], _ => []
  | i :: is, suff =>
    let r := cohLayer thr (score i) (cands i) suff
    r.1 ++ cohLayers thr score cands is r.2

/-- one step of `filter_alt_coherence_matches`: raise the score of a known language, or append -/
def filterAltStep (index : List (L × F32)) (p : L × F32) : List (L × F32) :=
  if index.any (fun q => q.1 = p.1) then
    index.map (fun q => if q.1 = p.1 then (q.1, if Fl.ocmp p.2 q.2 == .gt then p.2 else q.2) else q)
  else index ++ [p]

/-- `filter_alt_coherence_matches`: one entry per language (first appearance), with its best score -/
def filterAlt (l : List (L × F32)) : List (L × F32) := l.foldl filterAltStep []

/-- `results.sort_unstable_by(|a, b| b.score.cmp(&a.score))` on `CoherenceMatch` (16 bytes) -/
def sortDesc (l : List (L × F32)) : List (L × F32) :=
  sortUnstableSmall (fun a b => Fl.ocmp b.2 a.2 == .lt) l

/-- `coherence_ratio` on `nLayers` layers -/
def coherenceRatioModel (thr : F32) (nLayers : Nat) (score : Nat → L → F32) (cands : Nat → List L) : List (L × F32) :=
  sortDesc (filterAlt (cohLayers thr score cands (List.range nLayers) 0))

/-! ### `merge_coherence_ratios` (after the determinism repair: insertion-ordered grouping) -/

/-- `index.iter_mut().find(|(lang, _)| lang == language)`: push the score onto the first group of that
    language, or open a new group at the end -/
def pushScore (p : L × F32) : List (L × List F32) → List (L × List F32)
  | [] => [(p.1, [p.2])]
  | q :: qs => if q.1 = p.1 then (q.1, q.2 ++ [p.2]) :: qs else q :: pushScore p qs

/-- the grouping loop over `results.iter().flatten()` -/
def mergeGroups (results : List (List (L × F32))) : List (L × List F32) :=
  results.flatten.foldl (fun idx p => pushScore p idx) []

/-- `scores.iter().sum::<OrderedFloat<f32>>() / (scores.len() as f32)` -/
def meanScore (scores : List F32) : F32 :=
  Fl.div (scores.foldl Fl.add Fl.zero) (Fl.ofNat fmt32 scores.length)

/-- `merge_coherence_ratios`: mean per language, then `sort_unstable_by(|a, b| b.score.cmp(&a.score))` -/
def mergeModel (results : List (List (L × F32))) : List (L × F32) :=
  sortDesc ((mergeGroups results).map (fun g => (g.1, meanScore g.2)))

end Charset
