/-
  `utils::iana_name`, `encoding_from_whatwg_label`'s trimming and case folding, `is_cp_similar`,
  and the declared-encoding scanner `any_specified_encoding` (regex of consts.rs:331).
-/
import CharsetProof.Model.Prim
namespace Charset

/-- `label.trim_matches(&[' ', '\n', '\r', '\t', '\x0C'])` -/
def isLabelWs (c : Nat) : Bool := c = 32 || c = 10 || c = 13 || c = 9 || c = 12

def trimLabel (n : Name) : Name :=
  ((n.dropWhile isLabelWs).reverse.dropWhile isLabelWs).reverse

/-- what the label matcher compares: trimmed, ASCII-lower-cased -/
def normLabel (n : Name) : Name := (trimLabel n).map asciiLower

def lookupName {β} (tbl : List (Name × β)) (n : Name) : Option β :=
  (tbl.find? (fun p => p.1 == n)).map (·.2)

/-- `iana_name`: a supported name verbatim, else the canonical name of a WHATWG label -/
def ianaNameOf (supported : List Name) (labels : List (Name × Name)) (n : Name) : Option Name :=
  if supported.contains n then some n else lookupName labels (normLabel n)

/-- `is_cp_similar a b` -/
def similarOf (tbl : List (Name × List Name)) (a b : Name) : Bool :=
  match lookupName tbl a with
  | some l => l.contains b
  | none => false

/-! ### declared-encoding scanner -/

def kwEncoding : Name := [101,110,99,111,100,105,110,103]
def kwCharset  : Name := [99,104,97,114,115,101,116]
def kwCoding   : Name := [99,111,100,105,110,103]

def isSepChar (c : Nat) : Bool := c = 58 || c = 61 || c = 32          -- ':' '=' ' '
def isQuoteChar (c : Nat) : Bool := c = 34 || c = 39                  -- '"' '\''
def isNameChar (c : Nat) : Bool :=
  (97 ≤ c && c ≤ 122) || (65 ≤ c && c ≤ 90) || (48 ≤ c && c ≤ 57) || c = 45 || c = 95

/-- after a keyword: 1–10 separators, optional quote, non-empty name, optional quote.
    Returns the capture and what follows the match. -/
def matchAfterKeyword (s : List Nat) : Option (Name × List Nat) :=
  let seps := s.takeWhile isSepChar
  if seps.length = 0 ∨ 10 < seps.length then none else
  let r1 := s.drop seps.length
  let r2 := match r1 with | c :: r => if isQuoteChar c then r else r1 | [] => r1
  let nm := r2.takeWhile isNameChar
  if nm.length = 0 then none else
  let r3 := r2.drop nm.length
  let r4 := match r3 with | c :: r => if isQuoteChar c then r else r3 | [] => r3
  some (nm, r4)

/-- one regex match attempt at the head of `s` (alternation in pattern order) -/
def matchHere (s : List Nat) : Option (Name × List Nat) :=
  if kwEncoding.isPrefixOf s then
    match matchAfterKeyword (s.drop kwEncoding.length) with
    | some r => some r
    | none => none
  else if kwCharset.isPrefixOf s then matchAfterKeyword (s.drop kwCharset.length)
  else if kwCoding.isPrefixOf s then matchAfterKeyword (s.drop kwCoding.length)
  else none

/-- `captures_iter(..).find_map(|c| iana_name(c))`: leftmost, non-overlapping matches in order -/
def scanDeclared (iana : Name → Option Name) (fuel : Nat) (s : List Nat) : Option Name :=
  match fuel with
  | 0 => none
  | fuel + 1 =>
    match s with
    | [] => none
    | _ :: tl =>
      match matchHere s with
      | some (cap, rest) =>
        match iana cap with
        | some e => some e
        | none => scanDeclared iana fuel rest
      | none => scanDeclared iana fuel tl

/-- `any_specified_encoding(bytes, zone)`: ASCII-filter the first `zone` bytes, then scan -/
def declaredOf (iana : Name → Option Name) (zone : Nat) (b : Bytes) : Option Name :=
  let s := (b.take zone).filter (· < 128)
  scanDeclared iana (s.length + 1) s

end Charset
