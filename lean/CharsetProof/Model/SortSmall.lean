/-
  Executable model of `slice::sort_unstable_by` as instantiated for a *small* element type without
  interior mutability (`CoherenceMatch`, `(&Language, OrderedFloat<f32>)`: 16 bytes, `Freeze`, not
  `Copy`): `len ≤ 20` insertion sort; otherwise ipnsort whose quicksort hands sub-slices of ≤ 32
  elements to `small_sort_general` (two `sort8_stable`/`sort4_stable` presorted halves extended by
  `insert_tail`, then one `bidirectional_merge`) and partitions larger ones with
  `partition_lomuto_branchless_cyclic` (element size ≤ 96 bytes).  Pivot choice, run detection,
  heapsort fallback and the ancestor-pivot case are those of `SortLarge.lean`.

  `bidirectional_merge` panics when the comparison is not a strict weak order; the model returns
  `none` there (the comparisons of `cd.rs` are `OrderedFloat::cmp`, a total order).
-/
import CharsetProof.Model.SortLarge
namespace Charset
namespace SortSmall
open SortLarge

/-- `sort4_stable` on four elements -/
def sort4 (lt : IdxLt) (x0 x1 x2 x3 : Nat) : List Nat :=
  let c1 := lt x1 x0
  let c2 := lt x3 x2
  let a := if c1 then x1 else x0
  let b := if c1 then x0 else x1
  let c := if c2 then x3 else x2
  let d := if c2 then x2 else x3
  let c3 := lt c a
  let c4 := lt d b
  let mn := if c3 then c else a
  let mx := if c4 then b else d
  let ul := if c3 then a else (if c4 then c else b)
  let ur := if c4 then d else (if c3 then b else c)
  let c5 := lt ur ul
  let lo := if c5 then ur else ul
  let hi := if c5 then ul else ur
  [mn, lo, hi, mx]

structure Merge where
  dst      : Array Nat
  left     : Nat
  right    : Nat
  leftRevP : Nat     -- left_rev + 1
  rightRevP : Nat    -- right_rev + 1
  d        : Nat
  drP      : Nat     -- dst_rev + 1

/-- `bidirectional_merge(src, dst)`; `none` = `panic_on_ord_violation` -/
def bidirMerge (lt : IdxLt) (src : Array Nat) : Option (Array Nat) :=
  let n := src.size
  let h := n / 2
  let step (m : Merge) : Merge :=
    -- merge_up
    let isL := !lt (at' src m.right) (at' src m.left)
    let dst := m.dst.setIfInBounds m.d (if isL then at' src m.left else at' src m.right)
    let right := if isL then m.right else m.right + 1
    let left := if isL then m.left + 1 else m.left
    -- merge_down
    let isL2 := !lt (at' src (m.rightRevP - 1)) (at' src (m.leftRevP - 1))
    let dst := dst.setIfInBounds (m.drP - 1) (if isL2 then at' src (m.rightRevP - 1) else at' src (m.leftRevP - 1))
    let rightRevP := if isL2 then m.rightRevP - 1 else m.rightRevP
    let leftRevP := if isL2 then m.leftRevP else m.leftRevP - 1
    { dst := dst, left := left, right := right, leftRevP := leftRevP, rightRevP := rightRevP,
      d := m.d + 1, drP := m.drP - 1 }
  let m0 : Merge := { dst := Array.replicate n 0, left := 0, right := h, leftRevP := h, rightRevP := n, d := 0, drP := n }
  let m := (List.range h).foldl (fun m _ => step m) m0
  let leftEnd := m.leftRevP
  let rightEnd := m.rightRevP
  let (dst, left, right) :=
    if n % 2 = 1 then
      let leftNonempty := decide (m.left < leftEnd)
      (m.dst.setIfInBounds m.d (if leftNonempty then at' src m.left else at' src m.right),
       (if leftNonempty then m.left + 1 else m.left), (if leftNonempty then m.right else m.right + 1))
    else (m.dst, m.left, m.right)
  if left ≠ leftEnd ∨ right ≠ rightEnd then none else some dst

/-- `sort8_stable` -/
def sort8 (lt : IdxLt) (l : List Nat) : Option (List Nat) :=
  match l with
  | [x0, x1, x2, x3, x4, x5, x6, x7] =>
    (bidirMerge lt (sort4 lt x0 x1 x2 x3 ++ sort4 lt x4 x5 x6 x7).toArray).map (·.toList)
  | _ => none

/-- one half of `small_sort_general`: presort the first `k` elements, `insert_tail` the rest -/
def sortHalf (lt : IdxLt) (n : Nat) (part : List Nat) : Option (List Nat) :=
  let pre : Option (List Nat × Nat) :=
    if 16 ≤ n then (sort8 lt (part.take 8)).map (fun s => (s, 8))
    else if 8 ≤ n then
      (match part.take 4 with
       | [x0, x1, x2, x3] => some (sort4 lt x0 x1 x2 x3, 4)
       | _ => none)
    else some (part.take 1, 1)
  match pre with
  | none => none
  | some (s, k) =>
    let a := (s ++ part.drop k).toArray
    some ((List.range (part.length - k)).foldl (fun a i => insertTail lt a 0 (k + i)) a).toList

/-- `small_sort_general(v)` for `2 ≤ len ≤ 32`, element size ≤ 16 bytes -/
def smallSortGeneral (lt : IdxLt) (v : List Nat) : Option (List Nat) :=
  let n := v.length
  if n < 2 then some v else
  let h := n / 2
  match sortHalf lt n (v.take h), sortHalf lt n (v.drop h) with
  | some l, some r => (bidirMerge lt (l ++ r).toArray).map (·.toList)
  | _, _ => none

/-- write `l` into `a[lo ..]` -/
def blit (a : Array Nat) (lo : Nat) (l : List Nat) : Array Nat :=
  (l.zipIdx).foldl (fun a (x, i) => a.setIfInBounds (lo + i) x) a

structure Lomuto where
  a      : Array Nat
  gapPos : Nat
  numLt  : Nat

/-- `partition_lomuto_branchless_cyclic` on `a[base .. hi)` against the pivot element `p`;
    `less x p` = `is_less(x, pivot)` -/
def lomuto (less : Nat → Nat → Bool) (p : Nat) (a : Array Nat) (base hi : Nat) : Array Nat × Nat :=
  if hi ≤ base then (a, 0) else
  let gapVal := at' a base
  let body (st : Lomuto) (elem : Nat) (rightPos : Nat) : Lomuto :=
    let isLt := less elem p
    let left := base + st.numLt
    let a := st.a.setIfInBounds st.gapPos (at' st.a left)
    let a := a.setIfInBounds left elem
    { a := a, gapPos := rightPos, numLt := if isLt then st.numLt + 1 else st.numLt }
  let st := (List.range (hi - base - 1)).foldl
    (fun st k => let r := base + 1 + k; body st (at' st.a r) r) { a := a, gapPos := base, numLt := 0 }
  -- last: the saved first element; its "position" is the stack temporary, never written back
  let isLt := less gapVal p
  let left := base + st.numLt
  let a := st.a.setIfInBounds st.gapPos (at' st.a left)
  let a := a.setIfInBounds left gapVal
  (a, if isLt then st.numLt + 1 else st.numLt)

/-- `partition(v, pivot, is_less)` on `a[lo .. hi)`; `pivotPos` absolute. Returns `num_lt`. -/
def partition (less : Nat → Nat → Bool) (a : Array Nat) (lo hi pivotPos : Nat) : Array Nat × Nat :=
  if hi ≤ lo then (a, 0) else
  let a := swap a lo pivotPos
  let p := at' a lo
  let (a, numLt) := lomuto less p a (lo + 1) hi
  (swap a lo (lo + numLt), numLt)

/-- `quicksort(v, ancestor_pivot, limit, is_less)` on `a[lo .. hi)`; `none` = panic -/
def quicksort (lt : IdxLt) : Nat → Array Nat → Nat → Nat → Option Nat → Nat → Option (Array Nat)
  | 0, a, _, _, _, _ => some a
  | fuel + 1, a, lo, hi, ancestor, limit =>
    if hi - lo ≤ 32 then
      (smallSortGeneral lt ((a.toList.drop lo).take (hi - lo))).map (blit a lo)
    else if limit = 0 then some (heapsortRange lt a lo hi)
    else
      let limit := limit - 1
      let pivotPos := choosePivot lt a lo hi
      let eqCase : Bool := match ancestor with
        | some p => !lt p (at' a pivotPos)
        | none => false
      if eqCase then
        let (a, numLe) := partition (fun x y => !lt y x) a lo hi pivotPos
        quicksort lt fuel a (lo + numLe + 1) hi none limit
      else
        let (a, numLt) := partition lt a lo hi pivotPos
        let pivot := at' a (lo + numLt)
        match quicksort lt fuel a lo (lo + numLt) ancestor limit with
        | none => none
        | some a => quicksort lt fuel a (lo + numLt + 1) hi (some pivot) limit

def ipnsortIdx (lt : IdxLt) (n : Nat) : Option (Array Nat) :=
  let a : Array Nat := (List.range n).toArray
  let (run, rev) := findRun lt a n
  if run = n then some (if rev then a.reverse else a)
  else
    let limit := 2 * Nat.log2 (n ||| 1)
    quicksort lt (2 * n + 2) a 0 n none limit

end SortSmall

/-- adjacent elements are in order: `¬ is_less(next, prev)` -/
def sortedAdj {α : Type} (lt : α → α → Bool) : List α → Bool
  | [] => true
  | [_] => true
  | x :: y :: r => !lt y x && sortedAdj lt (y :: r)

/-- what the modelled algorithm computes (unvalidated order) -/
def ipnsortSmallRaw {α : Type} (lt : α → α → Bool) (l : List α) : List α :=
  let arr := l.toArray
  let ilt : IdxLt := fun i j =>
    match arr[i]?, arr[j]? with
    | some x, some y => lt x y
    | _, _ => false
  match SortSmall.ipnsortIdx ilt l.length with
  | none => l
  | some idx =>
    let idx := idx.toList
    if idx.isPerm (List.range l.length) then idx.filterMap (fun i => l[i]?) else l

/-- `ipnsort` for a small `Freeze` element type. As in `SortLarge`, the result computed by the modelled
    algorithm is *validated inside the model*: the index array must be a permutation of `0..n` and the
    output must be in order; otherwise (never observed; std would have to be wrong, or panic on an
    inconsistent comparison) plain insertion sort answers. This makes "sorted permutation" provable
    without a proof about the partition and merge networks; that the validated path is the one taken,
    i.e. exact agreement with std, is checked by the correspondence on every run. -/
def ipnsortSmall {α : Type} (lt : α → α → Bool) (l : List α) : List α :=
  if sortedAdj lt (ipnsortSmallRaw lt l) then ipnsortSmallRaw lt l else insertionSort lt l

/-- `slice::sort_unstable_by(is_less)` for a ≤ 16-byte `Freeze` element type -/
def sortUnstableSmall {α : Type} (lt : α → α → Bool) (l : List α) : List α := sortUnstableWith ipnsortSmall lt l

end Charset
