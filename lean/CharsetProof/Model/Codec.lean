/-
  Codecs of the `encoding` crate that are modelled (not trusted): single-byte table codecs, UTF-8,
  UTF-16LE/BE.  `strict` is what a whole-slice `DecoderTrap::Strict` decode returns: the text, or the
  *kind* of the first error (the only thing `utils::decode` looks at).
-/
import CharsetProof.Model.Prim
namespace Charset

inductive ErrKind
  | invalid      -- "invalid sequence"
  | incomplete   -- "incomplete sequence"
  deriving DecidableEq, Repr

/-- sentinel used in dumped single-byte tables for "no mapping" -/
def undefCp : Nat := 1114112

/-! ### single-byte table codecs -/

/-- every byte is looked up on its own; an unmapped byte is an "invalid sequence" -/
def tableStrict (tbl : List Nat) : Bytes → Except ErrKind Text
  | [] => .ok []
  | b :: bs =>
    match tbl[b]? with
    | none => .error .invalid
    | some cp =>
      if cp = undefCp then .error .invalid
      else match tableStrict tbl bs with
        | .error k => .error k
        | .ok t => .ok (cp :: t)

/-! ### UTF-8 (the crate's DFA: rejects overlongs, surrogates, > U+10FFFF) -/

/-- decoder state between characters / inside a multi-byte sequence -/
structure U8State where
  needed : Nat := 0     -- continuation bytes still expected (0 = initial/accept state)
  cp     : Nat := 0
  lower  : Nat := 0x80  -- admissible range of the next continuation byte
  upper  : Nat := 0xBF
  deriving DecidableEq, Repr

inductive U8Step
  | emit (cp : Nat)          -- a character completed, back to the initial state
  | more (s : U8State)
  | reject (consumed : Bool) -- initial-state reject consumes the byte; mid-sequence reject does not

def u8Step (s : U8State) (b : Nat) : U8Step :=
  if s.needed = 0 then
    if b < 0x80 then .emit b
    else if 0xC2 ≤ b ∧ b ≤ 0xDF then .more { needed := 1, cp := b % 32 }
    else if b = 0xE0 then .more { needed := 2, cp := b % 16, lower := 0xA0 }
    else if b = 0xED then .more { needed := 2, cp := b % 16, upper := 0x9F }
    else if 0xE1 ≤ b ∧ b ≤ 0xEF then .more { needed := 2, cp := b % 16 }
    else if b = 0xF0 then .more { needed := 3, cp := b % 8, lower := 0x90 }
    else if b = 0xF4 then .more { needed := 3, cp := b % 8, upper := 0x8F }
    else if 0xF1 ≤ b ∧ b ≤ 0xF3 then .more { needed := 3, cp := b % 8 }
    else .reject true
  else
    if s.lower ≤ b ∧ b ≤ s.upper then
      let cp := s.cp * 64 + b % 64
      if s.needed = 1 then .emit cp else .more { needed := s.needed - 1, cp := cp }
    else .reject false

def utf8StrictAux : U8State → Bytes → Except ErrKind Text
  | s, [] => if s.needed = 0 then .ok [] else .error .incomplete
  | s, b :: bs =>
    match u8Step s b with
    | .reject _ => .error .invalid
    | .more s' => utf8StrictAux s' bs
    | .emit cp =>
      match utf8StrictAux {} bs with
      | .error k => .error k
      | .ok t => .ok (cp :: t)

def utf8Strict (b : Bytes) : Except ErrKind Text := utf8StrictAux {} b

/-- UTF-8 encoding of one scalar value -/
def utf8EncodeChar (c : Nat) : Bytes :=
  if c < 0x80 then [c]
  else if c < 0x800 then [0xC0 + c / 64, 0x80 + c % 64]
  else if c < 0x10000 then [0xE0 + c / 4096, 0x80 + (c / 64) % 64, 0x80 + c % 64]
  else [0xF0 + c / 262144, 0x80 + (c / 4096) % 64, 0x80 + (c / 64) % 64, 0x80 + c % 64]

def utf8Encode (t : Text) : Bytes := t.flatMap utf8EncodeChar

/-- Unicode scalar value -/
def isScalar (c : Nat) : Bool := c < 0xD800 || (0xE000 ≤ c && c < 0x110000)

/-! ### UTF-16 -/

/-- code units of a byte string, plus a dangling byte if the length is odd -/
def utf16Units (le : Bool) : Bytes → List Nat × Bool
  | [] => ([], false)
  | [_] => ([], true)
  | b0 :: b1 :: rest =>
    let u := if le then b1 * 256 + b0 else b0 * 256 + b1
    let r := utf16Units le rest
    (u :: r.1, r.2)

def utf16FromUnits (dangling : Bool) : List Nat → Except ErrKind Text
  | [] => if dangling then .error .incomplete else .ok []
  | u :: us =>
    if 0xD800 ≤ u ∧ u ≤ 0xDBFF then
      match us with
      | [] => .error .incomplete
      | u2 :: us2 =>
        if 0xDC00 ≤ u2 ∧ u2 ≤ 0xDFFF then
          match utf16FromUnits dangling us2 with
          | .error k => .error k
          | .ok t => .ok (((u - 0xD800) * 1024 + (u2 - 0xDC00) + 0x10000) :: t)
        else .error .invalid
    else if 0xDC00 ≤ u ∧ u ≤ 0xDFFF then .error .invalid
    else
      match utf16FromUnits dangling us with
      | .error k => .error k
      | .ok t => .ok (u :: t)

def utf16Strict (le : Bool) (b : Bytes) : Except ErrKind Text :=
  let r := utf16Units le b
  utf16FromUnits r.2 r.1

/-! ### codec descriptor -/

inductive Codec
  | table (tbl : List Nat)
  | utf8
  | utf16 (le : Bool)
  /-- CJK / ISO-2022 / HZ codecs of the crate: not modelled, answered by the oracle -/
  | external (id : Name)

end Charset
