import CharsetProof.Model.Prim
import CharsetProof.Model.F32
import CharsetProof.Model.Tables
import CharsetProof.Model.Sort
import CharsetProof.Model.Entity
import CharsetProof.Model.Detect
