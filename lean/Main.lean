import CharsetProof.Model.Driver
def main : IO Unit := do
  let i ← IO.getStdin
  let o ← IO.getStdout
  Charset.Driver.loop i o
