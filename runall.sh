#!/bin/bash
# regenerate every evidence file on the clean tree with the default seed (run before committing evidence)
cd "$(dirname "$(readlink -f "$0")")"
for p in C01 C02 C03 C04 C05 C06 C07 C08 C09 C10 C11 C12 C13 C14 C15 C16 C17 C18 C19; do
  VERIF_SEED=1 ./check $p --tier ${1:-quick} 2>&1 | grep -v "^KNOWN-FINDING" | tail -1 | cut -c1-200
done
