#!/bin/bash
# usage: seedtest.sh <prop> <worktree> [check-prop ...]
# 1. confirm in the scratch worktree: lib tests pass with the change, demo fails with it, passes without
# 2. apply patch to /repo, run the checks, revert
set -u
P=$1; WT=$2; shift 2; CHECKS=${@:-$P}
export CARGO_NET_OFFLINE=true
cd $WT || exit 2
# the worktree's own state is not trusted (agents share the repository's stash): rebuild it from the deliverables
git checkout -q -- src 2>/dev/null
git apply SEEDED/patch.diff || { echo "SEEDED/patch.diff does not apply to a clean worktree"; exit 3; }
cp SEEDED/seeded_demo.rs tests/seeded_demo.rs 2>/dev/null
echo "== confirm in $WT"
git diff --stat -- src | tail -1
T1=$(cargo test --offline --lib 2>&1 | grep -E "^test result" | head -1); echo "lib tests with change: $T1"
D1=$(cargo test --offline --test seeded_demo 2>&1 | grep -E "^test result" | head -1); echo "demo with change: $D1"
git apply -R SEEDED/patch.diff
D2=$(cargo test --offline --test seeded_demo 2>&1 | grep -E "^test result" | head -1); echo "demo without change: $D2"
git apply SEEDED/patch.diff
echo "== apply to /repo and run checks"
cd /repo && git apply $WT/SEEDED/patch.diff || { echo "patch does not apply"; exit 3; }
for c in $CHECKS; do
  (cd /verif && timeout 1800 ./check $c 2>&1 | cut -c1-300 | head -12; echo "exit=${PIPESTATUS[0]}")
done
git -C /repo checkout -- . && git -C /repo status --short | head -3
