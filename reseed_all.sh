#!/bin/bash
# regression over every kept seeded defect: apply it to /repo, run the quick check of the property it breaks,
# record whether a VIOLATION is reported (and of which kind), undo it. Usage: reseed_all.sh [name-prefix]
cd "$(dirname "$(readlink -f "$0")")"
out=${REPORT:-/tmp/reseed_report.txt}
: > $out
for d in seeded/${1:-C}*/; do
  n=$(basename $d); p=${n:0:3}
  [ -f $d/patch.diff ] || continue
  git -C /repo apply $PWD/$d/patch.diff 2>/dev/null || { echo "$n :: PATCH-DOES-NOT-APPLY" >> $out; continue; }
  r=$(VERIF_SEED=${VERIF_SEED:-1} timeout 1800 ./check $p 2>&1 | grep -v "^KNOWN-FINDING" | grep "^VIOLATION\|^OK" | head -1 | cut -c1-160)
  git -C /repo checkout -- . 
  kind="MISSED"
  case "$r" in
    VIOLATION*no-failing-input-found*) kind="obligation-only";;
    VIOLATION*) kind="caught";;
  esac
  echo "$n :: $kind :: $r" >> $out
done
echo done >> $out
