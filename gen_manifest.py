#!/usr/bin/env python3
"""Regenerate MANIFEST.json's checks from props_config.py (keeps the two in sync)."""
import json, sys
sys.path.insert(0, "/verif")
from props_config import PROPS
ALL = [f"C{i:02d}" for i in range(1, 20)]
m = json.load(open("/verif/MANIFEST.json"))
checks = []
for pid in ALL:
    if pid not in PROPS:
        continue
    c = PROPS[pid]
    checks.append({
        "property_id": pid,
        "quick_cmd": f"./check {pid} --tier quick",
        "thorough_cmd": f"./check {pid} --tier thorough",
        "evidence_file": f"/verif/evidence/{pid}.json",
        "replay_cmd_template": f"./check {pid} --replay {{path}}",
        "engine": "lean4-model+harness",
        "level_claimed": {"category": "proof", "text": c["claim"], "design_ref": f"DESIGN.md §4 {pid}"},
        "level_note": c["note"],
        "technique": c.get("technique", "Lean 4 proof over an executable model + checked model/implementation correspondence (differential) + direct oracle search"),
    })
m["checks"] = checks
m["engines"] = [{"name": "lean4-model+harness", "path": "/verif/check", "serves_properties": [c["property_id"] for c in checks],
                 "kind_free_text": "Lean 4 theorems about a hand-written executable model; a Rust harness drives model and implementation on the same inputs (correspondence) and evaluates the property directly on the implementation (search for failing inputs)"}]
m["not_applicable"] = [{"property_id": p, "reason": "not yet claimed in this commit: theorems/correspondence under construction (DESIGN.md §4); will be claimed, not declared inapplicable"} for p in ALL if p not in PROPS]
json.dump(m, open("/verif/MANIFEST.json", "w"), indent=1, ensure_ascii=False)
print("checks:", [c["property_id"] for c in checks])
